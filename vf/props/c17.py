"""C17 — HTML state pseudo-classes follow their definitions and partition laws.

Exhaustive scenario families, each materialised through the bs4 API, html.parser, lxml and html5lib:
  disabled   fieldset(disabled?) x every child sequence of length <= 2 (thorough 3) over a 14-item menu of controls, legends, nested
             fieldsets, optgroups  ->  :enabled/:disabled partition the controls; :disabled = HTML "actually disabled"
  flags      controls x type x required/readonly/disabled/contenteditable/href  ->  :required/:optional, :read-write/:read-only, :link/:any-link
  default    forms (flat, wrapped, twin identical forms, inside an iframe, nested) x every sequence of <= 3 buttons/inputs
             ->  :default \\ :checked = first submit control of each form; :checked subset of :default
  radio      <= 3 (quick 2 + diagonal 3) radios x name x checked x placement (form A, form B, no form, inside an iframe)
             ->  :indeterminate by group; checkbox[indeterminate]; progress
  placeholder, range (laws + calendar reference), dir (every HTML element is exactly one of :dir(ltr)/:dir(rtl), also inside iframes)
Nothing crosses an iframe boundary in any reference.
"""
from __future__ import annotations
import itertools
import warnings
from ..engine import shard
from ..gen import trees as T
from ..ref import html as H
from . import _sel

ID = 'C17'
LEVEL = 'exploration'
BUILDERS = ('api', 'html.parser', 'lxml', 'html5lib')


def E(name, attrs=(), *kids):
    return ('e', name, tuple(attrs), tuple(kids))


def I(**kw):
    return E('input', tuple((k.rstrip('_').replace('_', '-'), v) for k, v in kw.items()))


# ---------------------------------------------------------------- families
def fam_disabled(tier):
    opt = lambda gd, od: E('select', (), E('optgroup', (('disabled', ''),) if gd else (), E('option', (('disabled', ''),) if od else (), ('t', 'o')), E('option', (), ('t', 'p'))))
    menu = [I(), I(disabled=''), E('button', (('type', 'button'),)), E('textarea'), E('legend', (), I()), E('legend', (), E('button', (('disabled', ''),))),
            E('div', (), I()), E('div', (), E('legend', (), I())), E('fieldset', (), I()), E('fieldset', (('disabled', ''),), E('legend', (), I()), I()),
            opt(True, False), opt(False, True), I(type='hidden'), E('legend', (), E('fieldset', (), I()))]
    k = 3
    for dis in (False, True):
        for n in range(0, k + 1):
            for seq in itertools.product(menu, repeat=n):
                yield ('disabled', (E('form', (), E('fieldset', (('disabled', ''),) if dis else (), *seq), I()),))


def fam_flags(tier):
    kids = []
    for t in (None, 'text', 'checkbox', 'hidden', 'date', 'bogus', 'NUMBER', 'password'):
        for req, ro, dis in itertools.product((False, True), repeat=3):
            a = []
            if t is not None:
                a.append(('type', t))
            a += [(k, '') for k, f in (('required', req), ('readonly', ro), ('disabled', dis)) if f]
            kids.append(E('input', tuple(a)))
    for req, ro, dis in itertools.product((False, True), repeat=3):
        a = tuple((k, 'false') for k, f in (('required', req), ('readonly', ro), ('disabled', dis)) if f)    # presence counts, not the value
        kids.append(E('textarea', a))
        kids.append(E('select', a, E('option', (), ('t', 'x'))))
    for ce in (None, '', 'true', 'false', 'TRUE', 'plaintext-only', 'junk'):
        kids.append(E('div', (('contenteditable', ce),) if ce is not None else (), ('t', 'x')))
    for n in ('a', 'area', 'link', 'span'):
        kids.append(E(n, (('href', 'u'),)))
        kids.append(E(n, (('href', ''),)))
        kids.append(E(n))
    yield ('flags', (E('html', (), E('body', (), E('fieldset', (('disabled', ''),), *kids[:20]), *kids)),))


def fam_default(tier):
    btn = [I(type='submit'), I(type='SUBMIT'), E('button', (('type', 'submit'),)), E('button', (('type', 'button'),)), I(type='button'), I(),
           I(type='image'), I(type='checkbox', checked='0'), I(type='radio', name='n', checked=''), E('button', (('type', 'reset'),))]
    k = 2 if tier == 'quick' else 3
    for n in range(0, k + 1):
        for seq in itertools.product(btn, repeat=n):
            yield ('default', (E('form', (), *seq),))
            if n:
                yield ('default', (E('div', (), E('form', (), E('div', (), seq[0]), *seq[1:]), E('form', (), E('div', (), seq[0]), *seq[1:])),))
                yield ('default', (E('form', (), seq[0], E('iframe', (), E('html', (), E('body', (), E('form', (), *seq[1:]), *seq))), seq[-1]),))
                yield ('default', (E('form', (), E('form', (), *seq[1:]), *seq),))
                yield ('default', (E('div', (), *seq, E('select', (), E('option', (('selected', ''),)), E('option'))),))


def fam_radio(tier):
    names = ('n', 'm', '', None)
    places = ('A', 'B', 'none', 'iframe', 'nested')     # nested: a form inside form A (html.parser and the API keep such trees): its controls belong to it, not to A
    opts = [(nm, ch, pl) for nm in names for ch in (False, True) for pl in places]
    k = 2
    combos = list(itertools.product(opts, repeat=k)) + [(a,) for a in opts]
    if tier != 'quick':
        combos += list(itertools.product(opts, repeat=3))
    else:
        combos += [(a, b, a) for a in opts[::3] for b in opts[1::4]]

    def radio(nm, ch):
        a = [('type', 'radio')]
        if nm is not None:
            a.append(('name', nm))
        if ch:
            # a boolean attribute counts by presence, whatever its value
            a.append(('checked', {'n': '', 'm': 'false', '': 'checked', None: 'x'}[nm]))
        # attribute order carries no meaning: each group name uses another order (checked first, in the middle, last)
        order = {'n': ('type', 'name', 'checked'), 'm': ('checked', 'type', 'name'), '': ('name', 'checked', 'type'), None: ('checked', 'type')}[nm]
        a.sort(key=lambda kv: order.index(kv[0]))
        return E('input', tuple(a))
    for combo in combos:
        slot = {'A': [], 'B': [], 'none': [], 'iframe': [], 'nested': []}
        for nm, ch, pl in combo:
            slot[pl].append(radio(nm, ch))
        inner = E('html', (), E('body', (), E('form', (), *slot['iframe']), radio('n', False)))
        nested = (E('div', (), E('form', (('id', 'N'),), *slot['nested'])),) if slot['nested'] else ()
        yield ('radio', (E('html', (), E('body', (), E('form', (('id', 'A'),), *slot['A'], *nested, E('iframe', (), inner) if slot['iframe'] else E('span')),
                                          E('form', (('id', 'B'),), *slot['B']), *slot['none'], I(type='checkbox', indeterminate=''), I(type='checkbox'),
                                          E('progress'), E('progress', (('value', '1'),)))),))


def fam_placeholder(tier):
    kids = []
    for t in (None, '', 'text', 'search', 'url', 'tel', 'email', 'password', 'number', 'TEXT', 'checkbox', 'date', 'hidden'):
        for ph in (None, '', 'p'):
            for v in (None, '', 'v'):
                a = [(k, x) for k, x in (('type', t), ('placeholder', ph), ('value', v)) if x is not None]
                kids.append(E('input', tuple(a)))
    for ph in (None, '', 'p'):
        for content in ((), (('t', '\n'),), (('t', ' '),), (('t', 'x'),), (('c', 'k'),), (('t', '\n\n'),)):
            kids.append(E('textarea', (('placeholder', ph),) if ph is not None else (), *content))
    kids.append(E('div', (('placeholder', 'p'),)))
    yield ('placeholder', (E('form', (), *kids),))


def fam_range(tier):
    vals = {'date': ['2020-01-10', '2020-02-29', '2021-01-01', '2019-02-29', ''], 'month': ['2020-01', '2020-06', '2021-01', '2020-13', ''],
            'week': ['2020-W01', '2020-W30', '2021-W01', '2020-W54', ''], 'time': ['02:00', '12:00', '22:00', '24:00', ''],
            'datetime-local': ['2020-01-10T00:00', '2020-06-01T12:00', '2021-01-01T00:00', '2020-01-10', ''],
            'number': ['-1', '0', '10', 'x', ''], 'range': ['-1', '0', '10', '1e3', ''], 'text': ['1', '2', '3', 'x', ''], 'NUMBER': ['1', '2', '3', 'x', '']}
    for t, vs in vals.items():
        kids = []
        for mn, mx, v in itertools.product([None] + vs, repeat=3):
            a = [('type', t)] + [(k, x) for k, x in (('min', mn), ('max', mx), ('value', v)) if x is not None]
            kids.append(E('input', tuple(a)))
        yield ('range', (E('form', (), *kids, E('input', (('min', '1'), ('value', '0'))), E('progress', (('min', '1'), ('max', '2'), ('value', '3')))),))


def fam_dir(tier):
    texts = {'latin': ('t', 'abc'), 'hebrew': ('t', 'אבג'), 'digits': ('t', '123'), 'none': None}
    dirs = (None, 'ltr', 'rtl', 'auto', '', 'AUTO', 'junk')
    for hd in (None, 'rtl', 'auto'):
        kids = []
        for d, (tn, tx) in itertools.product(dirs, texts.items()):
            a = (('dir', d),) if d is not None else ()
            kids.append(E('p', a, *([tx] if tx else []), E('span', (), E('b', (('dir', 'rtl'),)), E('i'))))
            kids.append(E('bdi', a, *([tx] if tx else [])))
            kids.append(E('textarea', a, *([tx] if tx else [])))
            for t in ('text', 'tel', 'email', 'number', None):
                ia = list(a) + ([('type', t)] if t else []) + ([('value', tx[1])] if tx else [])
                kids.append(E('input', tuple(ia)))
        inner = E('html', (), E('body', (), E('p', (), ('t', 'x')), E('p', (('dir', 'auto'),)), E('bdi'), E('div', (), E('span'))))
        inner_rtl = E('html', (('dir', 'rtl'),), E('body', (), E('p'), E('input', (('dir', 'auto'),))))
        yield ('dir', (E('html', (('dir', hd),) if hd else (), E('head', (), E('title', (), ('t', 'אב'))),
                         E('body', (), *kids, E('div', (('dir', 'rtl'),), E('iframe', (), inner), E('iframe', (), inner_rtl)))),))


def fam_deep_iframe(tier):
    """A form whose first part ends in an iframe that is a last child 0..3 levels down; the controls that decide the answer come after it."""
    inner = E('html', (), E('body', (), E('form', (), I(type='submit'), I(type='radio', name='n', checked='')), E('p', (), ('t', 'x'))))
    ifr = E('iframe', (), inner)
    tails = [(I(type='radio', name='n', checked=''),), (I(type='submit'), I(type='radio', name='n')), (E('div', (), I(type='submit')), I(type='radio', name='n', checked='')),
             (E('fieldset', (('disabled', ''),), I()), I(type='checkbox', checked=''))]
    for depth in range(0, 4):
        nest = ifr
        for d in range(depth):
            nest = E(('div', 'p', 'span')[d % 3], (), nest)
        for ws in (False, True):
            for tail in tails:
                for head in ((I(type='radio', name='n'),), (I(type='radio', name='n'), I(type='button')), ()):
                    body = head + ((nest, ('t', ' ')) if ws else (nest,)) + tail
                    yield ('radio', (E('html', (), E('body', (), E('form', (), *body), I(type='radio', name='n'))),))
                    yield ('default', (E('form', (), *body),))


FAMILIES = [fam_disabled, fam_flags, fam_default, fam_radio, fam_placeholder, fam_range, fam_dir, fam_deep_iframe]


def shards(tier, seed):
    n = 48 if tier == 'quick' else 192
    return [(tier, i, n) for i in range(n)]


def build(forest, builder):
    if builder == 'api':
        return T.build_api(forest, False)
    return T.build_parsed(forest, builder)


class Q:
    """select() results of one document as id-sets, memoised.  With a namespace map the selector is spelled '*|*:x' so that the map's
    default namespace cannot restrict the implied universal: the state pseudo-classes themselves must not depend on the caller's map."""

    def __init__(self, sv, soup, namespaces=None):
        self.sv = sv
        self.soup = soup
        self.ns = namespaces
        self.memo = {}

    def __call__(self, text):
        if text not in self.memo:
            if self.ns is None:
                self.memo[text] = {id(e) for e in self.sv.select(text, self.soup)}
            else:
                self.memo[text] = {id(e) for e in self.sv.select('*|*' + text, self.soup, namespaces=self.ns)}
        return self.memo[text]


FOREIGN_MAP = {'': 'urn:not-html', 'x': 'urn:x', 'html': 'urn:also-not-html'}


def check_doc(sv, family, soup, namespaces=None):
    """Yield (law, detail) for every violated law / definition in this document."""
    q = Q(sv, soup, namespaces)
    els = T.elements(soup)
    by = {id(e): e for e in els}

    def names(ids):
        return [_sel.brief(by[i]) for i in list(ids)[:3]]

    def same(law, text, want_ids, unspecified=()):
        got = q(text) - set(unspecified)
        want = set(want_ids) - set(unspecified)
        if got != want:
            return (law, f'{text} extra {names(got - want)} missing {names(want - got)}')
        return None
    out = []
    if family in ('disabled', 'flags', 'default', 'radio'):
        en, di = q(':enabled'), q(':disabled')
        controls = {id(e) for e in els if H.is_control(e)}
        hidden = {id(e) for e in els if H.name(e) == 'input' and H.low(H.attr(e, 'type', '') or '') == 'hidden'}
        if en & di:
            out.append(('enabled-disabled-disjoint', f'both: {names(en & di)}'))
        if (en | di) - hidden != controls:
            out.append(('enabled-disabled-cover', f'extra {names(((en | di) - hidden) - controls)} missing {names(controls - (en | di))}'))
        r = same('disabled-definition', ':disabled', {id(e) for e in els if H.is_control(e) and H.actually_disabled(e)}, hidden)
        if r:
            out.append(r)
    if family in ('flags', 'placeholder', 'range'):
        rq, op = q(':required'), q(':optional')
        pool = {id(e) for e in els if H.name(e) in ('input', 'select', 'textarea')}
        if rq & op or (rq | op) != pool:
            out.append(('required-optional-partition', f'both {names(rq & op)} uncovered {names(pool - (rq | op))} extra {names((rq | op) - pool)}'))
        rw, ro = q(':read-write'), q(':read-only')
        allids = set(by)
        if rw & ro or (rw | ro) != allids:
            out.append(('read-write-read-only-partition', f'both {names(rw & ro)} uncovered {names(allids - (rw | ro))}'))
        # HTML: a control that is disabled (by its own attribute or through a disabled fieldset) or readonly is not mutable, hence never
        # :read-write - unless the element is an editing host in its own right
        hosts = {id(e) for e in els if H.has(e, 'contenteditable')}
        di_ = q(':disabled')
        if (rw & di_) - hosts:
            out.append(('disabled-control-is-read-only', f'{names((rw & di_) - hosts)}'))
        ro_attr = {id(e) for e in els if H.has(e, 'readonly') and H.name(e) in ('input', 'textarea')}
        if (rw & ro_attr) - hosts:
            out.append(('readonly-control-is-read-only', f'{names((rw & ro_attr) - hosts)}'))
        if q(':link') != q(':any-link'):
            out.append(('link-equals-any-link', f'{names(q(":link") ^ q(":any-link"))}'))
        want_link = {id(e) for e in els if H.name(e) in ('a', 'area') and H.has(e, 'href')}
        r = same('link-definition', ':any-link', want_link)
        if r:
            out.append(r)
        r = same('required-definition', ':required', {i for i in pool if H.has(by[i], 'required')})
        if r:
            out.append(r)
    if family in ('default', 'radio', 'flags'):
        ch, df = q(':checked'), q(':default')
        if not ch <= df:
            out.append(('checked-subset-of-default', f'{names(ch - df)}'))
        verdict = {id(e): H.is_default(e) for e in els}
        r = same('default-definition', ':default', {i for i, v in verdict.items() if v}, {i for i, v in verdict.items() if v is None})
        if r:
            out.append(r)
        r = same('checked-definition', ':checked', {id(e) for e in els if H.is_checked_like(e)})
        if r:
            out.append(r)
    if family in ('radio', 'default'):
        verdict = {id(e): H.is_indeterminate(e) for e in els}
        r = same('indeterminate-definition', ':indeterminate', {i for i, v in verdict.items() if v}, {i for i, v in verdict.items() if v is None})
        if r:
            out.append(r)
    if family == 'placeholder':
        verdict = {id(e): H.placeholder_shown(e) for e in els}
        r = same('placeholder-shown-definition', ':placeholder-shown', {i for i, v in verdict.items() if v}, {i for i, v in verdict.items() if v is None})
        if r:
            out.append(r)
    if family == 'range':
        ins, outs = q(':in-range'), q(':out-of-range')
        st = {id(e): H.range_state(e) for e in els}
        if ins & outs:
            out.append(('in-out-disjoint', f'{names(ins & outs)}'))
        # the week-53 known finding (C18) cannot occur here: the menu has no W53 string
        r = same('in-range-definition', ':in-range', {i for i, v in st.items() if v == 'in'})
        if r:
            out.append(r)
        r = same('out-of-range-definition', ':out-of-range', {i for i, v in st.items() if v == 'out'})
        if r:
            out.append(r)
    if family == 'dir':
        l, r_ = q(':dir(ltr)'), q(':dir(rtl)')
        allids = set(by)
        if l & r_:
            out.append(('dir-exactly-one', f'both directions: {names(l & r_)}'))
        if (l | r_) != allids:
            out.append(('dir-exactly-one', f'neither direction: {names(allids - (l | r_))}'))
        expl = {id(e): H.low(H.attr(e, 'dir', '') or '') for e in els}
        bad = [i for i, d in expl.items() if (d == 'ltr' and i not in l) or (d == 'rtl' and i not in r_)]
        if bad:
            out.append(('dir-explicit-attribute', f'{names(bad)}'))
    return out


def run_shard(desc):
    from .. import common
    sv = common.bind()
    warnings.simplefilter('ignore')
    tier, i, n = desc
    res = shard.Result()
    k = 0
    seen = set()
    for fam in FAMILIES:
        for family, forest in fam(tier):
            k += 1
            if k % n != i:
                continue
            for builder in BUILDERS:
                try:
                    soup = build(forest, builder)
                except Exception:
                    res.count('parser_rejected', 1)
                    continue
                if builder != 'api':
                    fp = (builder, str(soup))
                    if fp in seen:
                        continue
                    seen.add(fp)
                sv.purge() if k % 50 == 0 else None
                try:
                    with shard.deadline(60):
                        bad = check_doc(sv, family, soup)
                        if not bad and builder in ('api', 'html5lib') and k % 3 == 0:
                            bad = [(law + '@foreign-default-namespace', d) for law, d in check_doc(sv, family, soup, FOREIGN_MAP)]
                except shard.CaseTimeout:
                    bad = [('timeout', 'document did not finish in 60 s')]
                except Exception as e:
                    bad = [('raise:' + type(e).__name__, str(e)[:150])]
                res.evaluations += 1
                if not bad:
                    res.outcome('laws-and-definitions-hold')
                    res.nontrivial += 1
                for law, detail in bad[:3]:
                    res.outcome('broken:' + law)
                    res.fail({'family': family, 'forest': forest, 'builder': builder, 'law': law},
                             {'law': law, 'family': family, 'iframe': 'iframe' in str(soup), 'builder': 'api' if builder == 'api' else 'parser'},
                             f'[{family}/{builder}] {law}: {detail} in {str(soup)[:200]}')
            if k % 499 == 0:
                res.sample({'family': family, 'document': T.to_markup(forest)[:300]})
    res.count('scenario_documents', 0)
    return res


def replay(case):
    from .. import common
    sv = common.bind()
    warnings.simplefilter('ignore')
    soup = build(_sel.tup(case['forest']), case['builder'])
    try:
        bad = check_doc(sv, case['family'], soup)
        if case['law'].endswith('@foreign-default-namespace'):
            bad = [(law + '@foreign-default-namespace', d) for law, d in check_doc(sv, case['family'], soup, FOREIGN_MAP)]
    except Exception as e:
        return {'law': 'raise:' + type(e).__name__}, repr(e)
    for law, detail in bad:
        if law == case['law']:
            return {'law': law, 'family': case['family']}, detail
    return ({'law': bad[0][0], 'family': case['family']}, bad[0][1]) if bad else None


def check(tier, seed):
    res, info = shard.run(__name__, shards(tier, seed), order_seed=seed)
    cov = {
        'rule': ('every scenario document of the seven families x four builders is checked against all partition laws and definitional references that '
                 'apply to its family; evaluations = (document, builder) pairs; non-trivial = pairs where every law and definition was evaluated and '
                 'held (each family document contains elements on both sides of every law); documents are distinct by construction, parser '
                 'duplicates are merged'),
        'exhaustive': not info['cap_hit'], 'families': [f.__name__[4:] for f in FAMILIES], 'builders': list(BUILDERS),
    }
    return {'result': res, 'coverage': cov, 'info': info,
            'assumptions': ["a <button> without a type attribute is not put in :default scenarios (HTML makes it a submit button, the property says 'of type submit')",
                            ':default / :indeterminate are not asserted inside nested forms', 'unknown input types are not asserted for :placeholder-shown',
                            'hidden inputs are not constrained by the :enabled/:disabled cover']}
