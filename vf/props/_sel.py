"""Shared by the tree x selector properties: run one (document, selector) case against soupsieve and the reference,
classify a disagreement, shrink it."""
from __future__ import annotations
from ..engine import shard
from ..gen import trees as T, selectors as S
from ..ref import css as R

KINDS = ('api-html', 'api-xml', 'html.parser', 'lxml', 'html5lib', 'xml')


def tup(x):
    if isinstance(x, list):
        return tuple(tup(i) for i in x)
    if isinstance(x, tuple):
        return tuple(tup(i) for i in x)
    return x


def build(forest, kind):
    if kind == 'api-html':
        return T.build_api(forest, False)
    if kind == 'api-xml':
        return T.build_api(forest, True)
    if kind == 'api-xhtml':
        return T.build_api(with_ns(forest, (None, 'http://www.w3.org/1999/xhtml')), True)
    if kind in ('api-detached', 'api-detached-xml'):
        # a tree with no BeautifulSoup object on top: the call target is its root element (extract(), copy.copy(tag) and new_tag() give such trees)
        if len(forest) != 1 or forest[0][0] != 'e':
            raise ValueError('a detached tree has exactly one root element')
        return T.build_detached(forest[0], kind.endswith('xml'))
    if kind == 'api-html5':
        # what html5lib produces: an HTML (not XML) document whose elements carry the XHTML namespace, so that the namespace-aware
        # code paths run with HTML case rules; names are stored exactly as given (html5lib keeps 'viewBox' and friends in mixed case)
        return T.build_api(with_ns(forest, (None, 'http://www.w3.org/1999/xhtml')), False)
    return T.build_parsed(forest, kind)


def with_ns(forest, ns):
    return tuple((n[0], n[1], n[2], with_ns(n[3], ns), ns) if n[0] == 'e' else n for n in forest)


def atoms_of(lst, out=None):
    """Set of atom kinds occurring in a selector list (for failure signatures)."""
    out = set() if out is None else out
    for x in lst:
        for comb in x[2]:
            out.add('comb' + {' ': '_desc', '>': '_child', '+': '_next', '~': '_sib'}[comb])
        for c in x[1]:
            if c[1] is not None:
                out.add('type*' if c[1][1] == '*' else 'type')
                if c[1][0] is not None:
                    out.add('tns:' + ('*' if c[1][0] == '*' else 'none' if c[1][0] == '' else 'pfx'))
            for s in c[2]:
                k = s[0]
                if k == 'attr':
                    out.add('attr' + (s[3] or ''))
                    if s[5]:
                        out.add('flag:' + s[5])
                    if s[3] and s[4] == '':
                        out.add('emptyval')
                    if s[1] is not None:
                        out.add('ans:' + ('*' if s[1] == '*' else 'none' if s[1] == '' else 'pfx'))
                elif k == 'pc':
                    out.add(':' + s[1])
                elif k == 'fn':
                    out.add(':' + s[1] + '()')
                    if len(s[2]) == 0:
                        out.add('emptylist')
                    if len(s[2]) > 1:
                        out.add('list')
                    atoms_of(s[2], out)
                elif k == 'has':
                    out.add(':has()')
                    if len(s[1]) > 1:
                        out.add('list')
                    for comb, y in s[1]:
                        out.add('rel' + {' ': '_desc', '>': '_child', '+': '_next', '~': '_sib'}[comb])
                        atoms_of((y,), out)
                elif k == 'nth':
                    out.add(':nth-' + s[1])
                    if s[4] is not None:
                        out.add('ofS')
                        atoms_of(s[4], out)
                elif k == 'contains':
                    out.add(':contains-own' if s[1] else ':contains')
                else:
                    out.add(k)
    if len(lst) > 1:
        out.add('list')
    return out


def run_case(sv, target, lst, namespaces=None, custom=None, ctx=None, text=None, timeout=10.0):
    """-> dict(status= ok|unspecified|mismatch|raise|timeout, got=[...], want=[...], detail=...)"""
    text = S.render(lst) if text is None else text
    kw = {}
    if namespaces is not None:
        kw['namespaces'] = namespaces
    try:
        with shard.deadline(timeout):
            got = sv.select(text, target, **kw)
    except shard.CaseTimeout:
        return {'status': 'timeout', 'detail': f'select({text!r}) did not return within {timeout}s'}
    except Exception as e:
        return {'status': 'raise', 'detail': f'select({text!r}) raised {type(e).__name__}: {str(e)[:200]}', 'exc': type(e).__name__}
    if ctx is None:
        ctx = R.Ctx(target, namespaces, custom)
    want = []
    unk = False
    for e in R.descendants(target):
        v = ctx.match_list(e, lst, True)
        if v is None:
            unk = True
        elif v:
            want.append(e)
    if unk:
        return {'status': 'unspecified', 'got': got, 'want': want}
    if len(got) == len(want) and all(a is b for a, b in zip(got, want)):
        return {'status': 'ok', 'got': got, 'want': want}
    gi, wi = {id(x) for x in got}, {id(x) for x in want}
    if gi == wi:
        direction = 'order-or-duplicates'
    elif gi > wi:
        direction = 'extra'
    elif gi < wi:
        direction = 'missing'
    else:
        direction = 'extra+missing'
    return {'status': 'mismatch', 'got': got, 'want': want, 'direction': direction,
            'detail': f'select({text!r}): soupsieve {[brief(x) for x in got]} reference {[brief(x) for x in want]}'}


def brief(el):
    s = str(el)
    return s if len(s) <= 70 else s[:67] + '...'


# ---------------------------------------------------------------- shrinking
def shrink_list(lst, still_fails):
    """Greedy AST reduction: drop alternatives, compounds, simples, types; unwrap functions."""
    changed = True
    while changed:
        changed = False
        for cand in _reductions(lst):
            if cand != lst and still_fails(cand):
                lst = cand
                changed = True
                break
    return lst


def _reductions(lst):
    # drop an alternative
    if len(lst) > 1:
        for i in range(len(lst)):
            yield lst[:i] + lst[i + 1:]
    for i, x in enumerate(lst):
        for y in _reduce_complex(x):
            yield lst[:i] + (y,) + lst[i + 1:]


def _reduce_complex(x):
    _, comps, combs = x
    if len(comps) > 1:
        yield ('cx', comps[1:], combs[1:])
        yield ('cx', comps[:-1], combs[:-1])
    if len(comps) == 1 and comps[0][1] is None and len(comps[0][2]) == 1:
        s = comps[0][2][0]
        if s[0] == 'fn' and s[1] in ('is', 'where', 'matches') and len(s[2]) == 1:
            yield s[2][0]               # unwrap :is(X) -> X
    for i, c in enumerate(comps):
        for c2 in _reduce_compound(c):
            yield ('cx', comps[:i] + (c2,) + comps[i + 1:], combs)


def _reduce_compound(c):
    _, typ, simples = c
    if c != ('cp', (None, '*'), ()):
        yield ('cp', (None, '*'), ())
    if typ is not None and simples:
        yield ('cp', None, simples)
    for i, s in enumerate(simples):
        rest = simples[:i] + simples[i + 1:]
        if rest or typ is not None:
            yield ('cp', typ, rest)
        for s2 in _reduce_simple(s):
            yield ('cp', typ, simples[:i] + (s2,) + simples[i + 1:])
    if typ is not None and typ[1] != '*' and simples:
        yield ('cp', (typ[0], '*'), simples)


def _reduce_simple(s):
    if s[0] == 'fn':
        for l2 in _reductions(s[2]):
            yield ('fn', s[1], l2)
    elif s[0] == 'has':
        rels = s[1]
        if len(rels) > 1:
            for i in range(len(rels)):
                yield ('has', rels[:i] + rels[i + 1:])
        for i, (comb, y) in enumerate(rels):
            for y2 in _reduce_complex(y):
                yield ('has', rels[:i] + ((comb, y2),) + rels[i + 1:])
    elif s[0] == 'nth' and s[4] is not None:
        yield s[:4] + (None,) + s[5:]
        for l2 in _reductions(s[4]):
            yield s[:4] + (l2,) + s[5:]


def shrink_forest(forest, still_fails):
    """Drop nodes (children are dropped with their parent) while the failure persists."""
    changed = True
    while changed:
        changed = False
        for cand in _forest_reductions(forest):
            if still_fails(cand):
                forest = cand
                changed = True
                break
    return forest


def _forest_reductions(forest):
    for i, n in enumerate(forest):
        yield forest[:i] + forest[i + 1:]
    for i, n in enumerate(forest):
        if n[0] == 'e':
            # hoist children in place of the node
            if n[3]:
                yield forest[:i] + n[3] + forest[i + 1:]
            for ch in _forest_reductions(n[3]):
                yield forest[:i] + ((n[0], n[1], n[2], ch) + tuple(n[4:]),) + forest[i + 1:]
            if n[2]:
                for j in range(len(n[2])):
                    yield forest[:i] + ((n[0], n[1], n[2][:j] + n[2][j + 1:], n[3]) + tuple(n[4:]),) + forest[i + 1:]
