"""E3: stateless exploration of thread interleavings of the REAL code under a scheduler we own.

Every thread runs under sys.settrace; each 'line' event (optionally each opcode in named functions) in a frame of the tree
under test is a scheduling point at which the running thread may hand the baton (a per-thread semaphore) to another
thread, as a recorded choice sequence dictates.  Only one thread runs at a time, so an execution is a deterministic
function of its choice sequence.  Exploration is depth-first over choice sequences with iterative preemption bounding:
switching away from a thread that could continue costs one preemption; switches at a thread's end are free.
"""
from __future__ import annotations
import sys
import threading

# the scheduler's own primitives are bound here, before anything is patched
_Semaphore, _Event, _Thread, _get_ident = threading.Semaphore, threading.Event, threading.Thread, threading.get_ident
_REAL = {n: getattr(threading, n) for n in ('Lock', 'RLock', 'Event', 'Condition', 'Semaphore', 'BoundedSemaphore')}
CURRENT = [None]          # the Scheduler whose execution is running (None outside executions)


class SchedDeadlock(BaseException):
    """Raised inside a scheduled thread when every live thread is waiting: the execution cannot continue."""


def _wait(cond):
    """Block the calling scheduled thread until cond() holds, handing the baton to other threads meanwhile.  Outside an execution (or in a thread the
    scheduler does not own) there is nobody to wait for: the condition must already hold."""
    s = CURRENT[0]
    tid = s.tids.get(_get_ident()) if s is not None else None
    if tid is None:
        if not cond():
            raise RuntimeError('a synchronisation primitive of the library would block outside a scheduled thread')
        return
    s.wait_until(tid, cond)


class CoopLock:
    """threading.Lock / RLock as the library sees it during an execution: waiting is a scheduling event, not a real block."""

    def __init__(self, reentrant=False):
        self.owner, self.count, self.reentrant = None, 0, reentrant

    def acquire(self, blocking=True, timeout=-1):
        me = _get_ident()
        if self.reentrant and self.owner == me:
            self.count += 1
            return True
        if self.owner is not None and not blocking:
            return False
        _wait(lambda: self.owner is None)
        self.owner, self.count = me, 1
        return True

    def release(self):
        if self.owner is None:
            raise RuntimeError('release unlocked lock')
        self.count -= 1
        if self.count <= 0:
            self.owner, self.count = None, 0

    def locked(self):
        return self.owner is not None

    __enter__ = acquire

    def __exit__(self, *a):
        self.release()

    def _is_owned(self):
        return self.owner == _get_ident()


class CoopEvent:
    def __init__(self):
        self.flag = False

    def is_set(self):
        return self.flag

    isSet = is_set

    def set(self):
        self.flag = True

    def clear(self):
        self.flag = False

    def wait(self, timeout=None):
        if timeout is not None and not self.flag:
            # a timed wait may legitimately give up: let the others run once, then report what the flag says
            s = CURRENT[0]
            tid = s.tids.get(_get_ident()) if s is not None else None
            if tid is not None:
                s.point(tid)
            return self.flag
        _wait(lambda: self.flag)
        return True


class CoopSemaphore:
    def __init__(self, value=1):
        self.value = value

    def acquire(self, blocking=True, timeout=None):
        if self.value <= 0 and not blocking:
            return False
        _wait(lambda: self.value > 0)
        self.value -= 1
        return True

    def release(self, n=1):
        self.value += n

    __enter__ = acquire

    def __exit__(self, *a):
        self.release()


class CoopCondition:
    def __init__(self, lock=None):
        self.lock = lock if lock is not None else CoopLock(True)
        self.acquire, self.release = self.lock.acquire, self.lock.release
        self.waiters = []

    def __enter__(self):
        return self.lock.acquire()

    def __exit__(self, *a):
        self.lock.release()

    def wait(self, timeout=None):
        token = [False]
        self.waiters.append(token)
        saved = (self.lock.owner, self.lock.count)
        self.lock.owner, self.lock.count = None, 0
        try:
            if timeout is not None:
                s = CURRENT[0]
                tid = s.tids.get(_get_ident()) if s is not None else None
                if tid is not None and not token[0]:
                    s.point(tid)
            else:
                _wait(lambda: token[0])
        finally:
            if token in self.waiters:
                self.waiters.remove(token)
            _wait(lambda: self.lock.owner is None)
            self.lock.owner, self.lock.count = saved
        return token[0]

    def wait_for(self, predicate, timeout=None):
        r = predicate()
        while not r:
            self.wait(timeout)
            r = predicate()
            if timeout is not None:
                break
        return r

    def notify(self, n=1):
        for token in self.waiters[:n]:
            token[0] = True
        del self.waiters[:n]

    def notify_all(self):
        self.notify(len(self.waiters))

    notifyAll = notify_all


_COOP = {'Lock': lambda: CoopLock(False), 'RLock': lambda: CoopLock(True), 'Event': CoopEvent, 'Condition': CoopCondition,
         'Semaphore': CoopSemaphore, 'BoundedSemaphore': CoopSemaphore}
_REAL_TYPES = None


def patch_threading():
    """From now on the threading module hands out cooperative primitives (the scheduler keeps the real ones it bound at import)."""
    for n, f in _COOP.items():
        setattr(threading, n, f)


def unpatch_threading():
    for n, f in _REAL.items():
        setattr(threading, n, f)


def replace_real_primitives(modules):
    """Primitives the library created at import time (module-level or class-level locks, events ...) are real ones: swap them for cooperative
    ones, in place, once per process.  Returns how many were replaced."""
    global _REAL_TYPES
    if _REAL_TYPES is None:
        _REAL_TYPES = {type(_REAL['Lock']()): 'Lock', type(_REAL['RLock']()): 'RLock', _REAL['Event']: 'Event', _REAL['Condition']: 'Condition',
                       _REAL['Semaphore']: 'Semaphore', _REAL['BoundedSemaphore']: 'BoundedSemaphore'}
    n = 0
    for m in modules:
        spaces = [vars(m)] + [vars(v) for v in list(vars(m).values()) if isinstance(v, type) and getattr(v, '__module__', '') == m.__name__]
        for ns in spaces:
            for name, v in list(ns.items()):
                kind = _REAL_TYPES.get(type(v))
                if kind is not None:
                    try:
                        if isinstance(ns, dict):
                            ns[name] = _COOP[kind]()
                        else:
                            setattr(m, name, _COOP[kind]())
                        n += 1
                    except Exception:
                        pass
    return n


class Execution:
    __slots__ = ('choices', 'points', 'results', 'steps', 'hung', 'hot')

    def __init__(self):
        self.choices = []     # chosen index at each choice point
        self.points = []      # (kind, enabled_count, running_still_enabled)
        self.hot = []         # per choice point: is it next to a step that wrote watched shared state (see Scheduler.watch)
        self.results = None
        self.steps = 0
        self.hung = False


class Scheduler:
    def __init__(self, ops, prefix, trace_prefix, opcode_functions=(), max_steps=200000, watch=None, hot=None, learn=True):
        self.ops = ops
        self.n = len(ops)
        self.prefix = list(prefix)
        self.trace_prefix = trace_prefix
        self.opcode_functions = set(opcode_functions)
        self.sems = [_Semaphore(0) for _ in range(self.n)]
        self.done_evt = _Event()
        self.tids = {}                      # OS thread ident -> scheduled thread index
        self.waiting = [None] * self.n      # condition a thread is blocked on (a callable), or None
        self.deadlock = False
        self.alive = [True] * self.n
        self.running = None
        self.ex = Execution()
        self.results = [None] * self.n
        self.max_steps = max_steps
        self.divergence = None
        # conflict detection: `watch()` returns a cheap digest of the shared state the harness can see (caches, interpreter settings, module-level
        # containers); a source line after which the digest differs is a writer and goes into `hot` (code locations, shared between executions)
        self.watch = watch
        self.hot = hot if hot is not None else set()
        self.learn = learn
        self.digest = None
        self.prev_loc = None
        self.prev_loc_of = [None] * self.n
        self.cur_hot = False

    # ---- choice
    def _choose(self, kind, enabled, running_enabled):
        pos = len(self.ex.choices)
        if pos < len(self.prefix):
            c = self.prefix[pos]
            if c >= len(enabled):
                self.divergence = f'choice {c} at point {pos} but only {len(enabled)} thread(s) enabled'
                c = 0
        else:
            c = 0
        self.ex.choices.append(c)
        self.ex.points.append((kind, len(enabled), running_enabled))
        self.ex.hot.append(self.cur_hot if kind == 'line' else False)
        return enabled[c]

    def _runnable(self, i):
        if not self.alive[i]:
            return False
        w = self.waiting[i]
        return w is None or bool(w())

    def _enabled(self, tid):
        """Canonical order: the running thread first if still enabled, then ascending ids.  A thread waiting on a primitive whose condition
        does not hold is not enabled."""
        rest = [i for i in range(self.n) if i != tid and self._runnable(i)]
        return ([tid] if tid is not None and self._runnable(tid) else []) + rest

    def wait_until(self, tid, cond):
        """Called (through the cooperative primitives) by the running thread: give way until cond() holds.  If nobody can run, it is a deadlock."""
        while not cond():
            if self.deadlock:
                raise SchedDeadlock('deadlock')
            self.waiting[tid] = cond
            enabled = self._enabled(None)
            if not enabled:
                self.deadlock = True
                self.ex.hung = True
                self.waiting[tid] = None
                raise SchedDeadlock('every live thread is waiting')
            nxt = enabled[0] if len(enabled) == 1 else self._choose('block', enabled, False)
            self.running = nxt
            self.sems[nxt].release()
            self.sems[tid].acquire()
            if self.deadlock:
                self.waiting[tid] = None
                raise SchedDeadlock('deadlock')
        self.waiting[tid] = None

    def point(self, tid, frame=None):
        if frame is not None and (self.watch is not None or self.hot):
            loc = (frame.f_code.co_filename, frame.f_lineno)
            if self.watch is not None:
                d = self.watch()
                if d != self.digest:
                    if self.learn and self.prev_loc is not None:
                        self.hot.add(self.prev_loc)
                    self.digest = d
            # a preemption here separates the line just executed by this thread from the line it is about to execute
            self.cur_hot = loc in self.hot or self.prev_loc_of[tid] in self.hot
            self.prev_loc = loc
            self.prev_loc_of[tid] = loc
        self.ex.steps += 1
        if self.ex.steps > self.max_steps:
            self.ex.hung = True
            raise RuntimeError('scheduler step budget exceeded')
        enabled = self._enabled(tid)
        if len(enabled) <= 1:
            return
        nxt = self._choose('line', enabled, True)
        if nxt != tid:
            self.running = nxt
            self.sems[nxt].release()
            self.sems[tid].acquire()

    # ---- tracing
    def _global_trace(self, tid):
        tp = self.trace_prefix
        opf = self.opcode_functions

        def local(frame, event, arg):
            if event == 'line' or event == 'opcode':
                self.point(tid, frame)
            return local

        def glob(frame, event, arg):
            if event == 'call':
                code = frame.f_code
                if code.co_filename.startswith(tp):
                    if code.co_name in opf:
                        frame.f_trace_opcodes = True
                    return local
            return None
        return glob

    def _thread(self, tid):
        self.tids[_get_ident()] = tid
        self.sems[tid].acquire()
        try:
            sys.settrace(self._global_trace(tid))
            try:
                r = ('ok', self.ops[tid]())
            except BaseException as e:   # noqa: B902
                r = ('raise', type(e).__name__, str(e)[:200])
            finally:
                sys.settrace(None)
            self.results[tid] = r
        finally:
            self.alive[tid] = False
            self.waiting[tid] = None
            enabled = self._enabled(None)
            if not enabled:
                stuck = [i for i in range(self.n) if self.alive[i]]
                if stuck:
                    # the remaining threads all wait for something nobody will provide: wake one so that it can unwind with SchedDeadlock
                    self.deadlock = True
                    self.ex.hung = True
                    self.running = stuck[0]
                    self.sems[stuck[0]].release()
                else:
                    self.done_evt.set()
            else:
                nxt = enabled[0] if len(enabled) == 1 else self._choose('end', enabled, False)
                self.running = nxt
                self.sems[nxt].release()

    def run(self, timeout=20):
        ts = [_Thread(target=self._thread, args=(i,), daemon=True) for i in range(self.n)]
        CURRENT[0] = self
        patch_threading()
        for t in ts:
            t.start()
        if self.watch is not None:
            self.digest = self.watch()
        first = self._choose('start', list(range(self.n)), False) if self.n > 1 else 0
        self.running = first
        self.sems[first].release()
        if not self.done_evt.wait(timeout):
            self.ex.hung = True
        for t in ts:
            t.join(0.5 if self.ex.hung else 5)
        unpatch_threading()
        CURRENT[0] = None
        self.ex.results = list(self.results)
        return self.ex


def explore(run, check, bound, first_dev=None, on_execution=None, max_executions=None, hot_only=False):
    """Depth-first over choice sequences.  run(prefix) -> Execution; check(ex) -> None | failure.
    bound = max preemptions.  first_dev = (lo, hi) restricts the index of the first deviating 'line' choice (for sharding).
    hot_only: preempt only at points flagged in Execution.hot (next to a write of watched shared state); the free choices (which thread
    starts, which continues when one ends) stay unrestricted.
    Returns dict(executions, choice_points, failures, capped)."""
    stats = {'executions': 0, 'choice_points': 0, 'failures': [], 'capped': False, 'max_points': 0}

    def preempts(ex, upto):
        return sum(1 for (kind, n, re_), c in zip(ex.points[:upto], ex.choices[:upto]) if kind == 'line' and c != 0)

    def rec(prefix):
        if max_executions and stats['executions'] >= max_executions:
            stats['capped'] = True
            return
        ex = run(prefix)
        stats['executions'] += 1
        stats['max_points'] = max(stats['max_points'], len(ex.points))
        if on_execution:
            on_execution(ex)
        f = check(ex)
        if f is not None:
            stats['failures'].append((list(ex.choices), f))
            if len(stats['failures']) >= 6 or (isinstance(f[0], dict) and f[0].get('kind') == 'hang'):
                # a hung execution leaves blocked threads behind and costs the whole watchdog: one witness is enough
                stats['capped'] = True
                return
        used = preempts(ex, len(prefix))
        had_dev = any(k == 'line' and c != 0 for (k, n, r), c in zip(ex.points[:len(prefix)], ex.choices[:len(prefix)]))
        line_index = sum(1 for (k, n, r) in ex.points[:len(prefix)] if k == 'line')
        for i in range(len(prefix), len(ex.points)):
            kind, n_enabled, running_enabled = ex.points[i]
            stats['choice_points'] += 1
            cost = used + (1 if kind == 'line' else 0)
            if kind == 'line':
                li = line_index
                line_index += 1
            if cost > bound:
                continue
            if hot_only and kind == 'line' and not (i < len(ex.hot) and ex.hot[i]):
                continue
            if kind == 'line' and not had_dev and first_dev is not None and not (first_dev[0] <= li < first_dev[1]):
                continue
            for alt in range(1, n_enabled):
                rec(list(ex.choices[:i]) + [alt])
                if stats['capped']:
                    return
    rec([])
    return stats
