"""C13 — :lang() is RFC 4647 extended filtering over the inherited language.

(i)  Filter: all ranges and all tags of 1..k subtags over alphabets that realise every class the algorithm distinguishes
     (equal / different, '*', singleton, longer, mixed case) plus the empty range and tag, on the live
     extended_language_filter and end to end through :lang("...") (single ranges and lists).
(ii) Determination: ancestor chains of depth <= 4 with lang in {absent, "", en, de-DE} at every level x <meta> pragma
     {absent, present, second} x HTML (html.parser, lxml, html5lib, API) / XHTML / XML with xml:lang x an iframe at each
     depth x foreign-namespace elements inside HTML and HTML inside foreign elements.
Oracle: RFC 4647 section 3.3.2 verbatim (vf/ref/lang.py) and the inheritance reference of vf/ref/css.py.
"""
from __future__ import annotations
import itertools
import warnings
from ..engine import shard
from ..gen import trees as T, selectors as S
from ..ref import css as R, lang as RL
from . import _sel

ID = 'C13'
LEVEL = 'exploration'
RSUB = ('*', 'en', 'de', 'a', 'x', 'latn', '1996')
TSUB = ('en', 'de', 'DE', 'a', 'x', 'latn', '1996')
XHTML = 'http://www.w3.org/1999/xhtml'
XMLNS = 'http://www.w3.org/XML/1998/namespace'
SVG = 'http://www.w3.org/2000/svg'


def words(alpha, k):
    out = ['']
    for n in range(1, k + 1):
        for w in itertools.product(alpha, repeat=n):
            out.append('-'.join(w))
    return out


def shards(tier, seed):
    k = 3 if tier == 'quick' else 4
    rs = words(RSUB, k)
    n = 32 if tier == 'quick' else 128
    out = [('filter', k, i, n) for i in range(n)]
    out += [('e2e', k, i, 8) for i in range(8)]
    out += [('det', tier, i, 16) for i in range(16)]
    out += [('edit', tier, d, 0) for d in ('meta-pragma', 'no-language', 'lang-depths', 'iframe')]
    return out


def live_filter(sv):
    import bs4
    soup = bs4.BeautifulSoup('<p></p>', 'html.parser')
    try:
        m = sv.css_match.CSSMatch(sv.compile('p').selectors, soup, None, 0)
        f = m.extended_language_filter
        f('en', 'en')
        return f, 'CSSMatch.extended_language_filter'
    except Exception:
        def f(r, t):
            soup.p['lang'] = t
            return bool(sv.match(':lang(%s)' % S.css_string(r), soup.p))
        return f, 'public :lang() on <p lang=...>'


def range_class(r):
    f = set()
    parts = r.split('-')
    if r == '':
        return 'empty-range'
    if parts[0] == '*':
        f.add('leading-wildcard')
    if '*' in parts[1:]:
        f.add('inner-or-trailing-wildcard')
        if parts[-1] == '*':
            f.add('trailing-wildcard')
    if any(len(p) == 1 and p != '*' for p in parts[1:]):
        f.add('singleton-in-range')
    return '+'.join(sorted(f)) or 'plain'


def run_filter(sv, k, i, n, res):
    f, how = live_filter(sv)
    res.extra['filter_seam'] = how
    rs, ts = words(RSUB, 4), words(TSUB, k)      # ranges always up to 4 subtags; tags up to k (quick 3, thorough 4)
    for ri in range(i, len(rs), n):
        r = rs[ri]
        for t in ts:
            try:
                got = bool(f(r, t))
            except Exception as e:
                res.fail({'layer': 'filter', 'range': r, 'tag': t}, {'kind': 'raise', 'exc': type(e).__name__, 'range': range_class(r)},
                         f'extended_language_filter({r!r}, {t!r}) raised {e!r}')
                continue
            want = RL.extended_filter(r, t)
            res.evaluations += 1
            if want:
                res.nontrivial += 1
            if got != want:
                res.outcome('disagree')
                res.fail({'layer': 'filter', 'range': r, 'tag': t},
                         {'kind': 'filter', 'direction': 'extra' if got else 'missing', 'range': range_class(r),
                          'tag_has_singleton': any(len(p) == 1 for p in t.split('-')[1:]), 'empty_tag': t == ''},
                         f'range {r!r} vs tag {t!r}: soupsieve {got}, RFC 4647 {want}')
            else:
                res.outcome('agree')
        if ri % 101 == 0:
            res.sample({'range': r, 'tags_matched': [t for t in ts[:60] if RL.extended_filter(r, t)][:5]})


_flt = lambda r, t: RL.extended_filter(r, t)
COMPOUND_FORMS = (('p:lang({a}):lang({b})', lambda a, b, t: _flt(a, t) and _flt(b, t)),
                  ('p:lang({a}):not(:lang({b}))', lambda a, b, t: _flt(a, t) and not _flt(b, t)),
                  ('p:not(:lang({a}):lang({b}))', lambda a, b, t: not (_flt(a, t) and _flt(b, t))),
                  ('p:lang({a}):lang({b}, {a})', lambda a, b, t: _flt(a, t)),
                  ('p:is(:lang({a})):lang({b})', lambda a, b, t: _flt(a, t) and _flt(b, t)))


def run_e2e(sv, k, i, n, res):
    """Through the parser and the matcher: one document with every tag, one select per range or range list."""
    import bs4
    ts = words(TSUB, 2) + ['en-latn-DE', 'de-x-a', 'de-a-x-en', 'en-1996-a']      # words() starts with '' (explicitly empty language)
    soup = bs4.BeautifulSoup('', 'html.parser')
    root = soup.new_tag('div')
    soup.append(root)
    els = []
    for t in ts:
        p = soup.new_tag('p')
        p['lang'] = t
        root.append(p)
        els.append(p)
    rs = words(RSUB, 2) + ['*-*-de', 'en-*-*', 'de-*-a', 'de-x-*', '*-1996', 'de-*-*-DE']
    lists = [(r,) for r in rs] + [(a, b) for a in rs[1:12] for b in rs[20:26]] + [('en', 'de', 'x-*'), ('', '*'), ('*', ''), ('', 'en'), ('en', ''), ('*', 'en', ''), ('', '*-*')]
    for li in range(i, len(lists), n):
        ranges = lists[li]
        for quote in ('"', 'bare', 'comments'):
            if quote == 'bare':
                if any(not r or '*' in r or r[0].isdigit() for r in ranges):
                    continue
                text = 'p:lang(' + ', '.join(ranges) + ')'
            elif quote == 'comments':
                # comments that contain range-shaped text (identifiers, quoted strings, a quoted '*') on both sides of every comma and at both ends
                if len(ranges) < 2 and li % 7:
                    continue
                text = 'p:lang(/* zz */' + ' /* "a", de, \'*\' */ , /* x-y */ '.join(S.css_string(r) for r in ranges) + ' /* ,"en" */)'
            else:
                text = 'p:lang(' + ', '.join(S.css_string(r) for r in ranges) + ')'
            try:
                got = sv.select(text, soup)
            except Exception as e:
                res.fail({'layer': 'e2e', 'text': text}, {'kind': 'raise', 'exc': type(e).__name__}, f'{text!r}: {e!r}')
                continue
            want = [e for e, t in zip(els, ts) if any(RL.extended_filter(r, t) for r in ranges)]
            res.evaluations += 1
            if want:
                res.nontrivial += 1
            if [id(x) for x in got] != [id(x) for x in want]:
                res.fail({'layer': 'e2e', 'text': text, 'ranges': list(ranges)},
                         {'kind': 'e2e', 'direction': 'extra' if len(got) > len(want) else 'missing', 'range': range_class(ranges[0]), 'list': len(ranges) > 1},
                         f'{text!r}: soupsieve {[x["lang"] for x in got]} RFC 4647 {[x["lang"] for x in want]}')
            else:
                res.outcome('e2e-agree')
    # several :lang() in one compound are a conjunction (each must match on its own), also under :not()
    conj = [(a, b) for a in rs[1:14] for b in rs[18:28]] + [('*', ''), ('', ''), ('en', 'en'), ('*-DE', 'de'), ('de', '*-DE')]
    forms = COMPOUND_FORMS
    for ci in range(i, len(conj), n):
        a, b = conj[ci]
        for form, law in forms:
            text = form.format(a=S.css_string(a), b=S.css_string(b))
            try:
                got = sv.select(text, soup)
            except Exception as e:
                res.fail({'layer': 'e2e', 'text': text}, {'kind': 'raise', 'exc': type(e).__name__}, f'{text!r}: {e!r}')
                continue
            want = [e for e, t in zip(els, ts) if law(a, b, t)]
            res.evaluations += 1
            if want and len(want) < len(els):
                res.nontrivial += 1
            if [id(x) for x in got] != [id(x) for x in want]:
                res.fail({'layer': 'e2e', 'text': text, 'ranges': [a, b], 'form': form},
                         {'kind': 'e2e-compound', 'direction': 'extra' if len(got) > len(want) else 'missing', 'form': form.replace('{a}', 'A').replace('{b}', 'B')},
                         f'{text!r}: soupsieve {[x["lang"] for x in got]} RFC 4647 per range, combined {[x["lang"] for x in want]}')
            else:
                res.outcome('e2e-compound-agree')


# ---------------------------------------------------------------- determination
LANGS = (None, '', 'en', 'de-DE')
DET_SELECTORS = [('lang', ('en',)), ('lang', ('de',)), ('lang', ('',)), ('lang', ('*',)), ('lang', ('fr', 'en-*')), ('lang', ('', '*')), ('lang', ('*', '')),
                 ('fn', 'not', (S.cx(S.cp(None, ('lang', ('en',)))),))]


def det_documents(tier):
    """-> list of (name, builder description) ; built lazily by build_det."""
    out = []
    metas = ('none', 'pragma', 'second', 'unrelated-first', 'unrelated-only', 'content-first')
    depth = 3 if tier == 'quick' else 4
    for langs in itertools.product(LANGS, repeat=depth):
        for meta in metas:
            if tier == 'quick' and meta in ('second', 'unrelated-first', 'unrelated-only', 'content-first') and langs[0] is not None:
                continue
            for kind in ('html.parser', 'lxml', 'html5lib', 'api', 'xhtml', 'xml'):
                if kind in ('lxml', 'html5lib') and tier == 'quick' and (sum(x is None for x in langs) + metas.index(meta)) % 2:
                    continue
                out.append(('chain', kind, langs, meta, None))
        for at in range(1, depth):
            out.append(('chain', 'api', langs, 'pragma', at))
            out.append(('chain', 'html.parser', langs, 'none', at))
    return out


def chain_markup(langs, meta, iframe_at, xml_style=False, xhtml=False):
    def attr(v):
        if v is None:
            return ''
        return (' xml:lang="%s"' if xml_style else ' lang="%s"') % v
    head = ''
    if meta == 'pragma':
        head = '<meta http-equiv="content-language" content="fr"%s>' % ('/' if xhtml or xml_style else '')
    elif meta == 'content-first':
        # the same pragma with its attributes in the other order (and another attribute in between): attribute order carries no meaning
        head = '<meta content="fr" data-x="en" http-equiv="content-language"%s>' % ('/' if xhtml or xml_style else '')
    elif meta == 'second':
        head = '<meta charset="utf-8"%s><meta http-equiv="Content-Language" content="fr"%s>' % ((('/' if xhtml or xml_style else ''),) * 2)
    elif meta == 'unrelated-first':
        sl = '/' if xhtml or xml_style else ''
        head = ('<meta name="viewport" content="de"%s><meta name="author" content="en"%s><meta http-equiv="content-language" content="fr"%s><meta name="x" content="es"%s>'
                % (sl, sl, sl, sl))
    elif meta == 'unrelated-only':
        sl = '/' if xhtml or xml_style else ''
        head = '<meta name="viewport" content="de"%s><meta http-equiv="refresh" content="en"%s><meta http-equiv="content-language"%s>' % (sl, sl, sl)
    inner = '<b>x</b>'
    names = ['div', 'section', 'p', 'span']
    for d in range(len(langs) - 1, 0, -1):
        inner = '<%s%s>%s<i>y</i></%s>' % (names[d - 1], attr(langs[d]), inner, names[d - 1])
        if iframe_at == d:
            inner = '<iframe><html><head></head><body>%s</body></html></iframe>' % inner
    ns = ' xmlns="%s"' % XHTML if xhtml else ''
    return '<html%s%s><head>%s</head><body>%s<em>z</em></body></html>' % (ns, attr(langs[0]), head, inner)


def build_det(desc):
    import bs4
    _, kind, langs, meta, iframe_at = desc
    with warnings.catch_warnings():
        warnings.simplefilter('ignore')
        if kind in ('html.parser', 'lxml', 'html5lib'):
            return bs4.BeautifulSoup(chain_markup(langs, meta, iframe_at), kind)
        if kind == 'xhtml':
            return bs4.BeautifulSoup(chain_markup(langs, meta, iframe_at, xhtml=True), 'xml')
        if kind == 'xml':
            return bs4.BeautifulSoup(chain_markup(langs, meta, iframe_at, xml_style=True), 'xml')
        # API: parse with html.parser then re-create through the API? html.parser keeps iframe content as elements already.
        soup = bs4.BeautifulSoup(chain_markup(langs, meta, iframe_at), 'html.parser')
        return soup


FOREIGN_DOCS = [
    ('html5lib', '<div lang="en"><svg><circle/><foreignObject><p>t</p></foreignObject></svg><p lang="de">u<math><mi>x</mi></math></p></div>'),
    ('html5lib', '<div><svg xml:lang="fr-CA"><circle/><foreignObject><p>t</p><p lang="en">v</p></foreignObject></svg></div>'),
    ('html5lib', '<html lang="de"><body><svg lang="en" xml:lang="fr"><g><circle/></g></svg></body></html>'),
    ('xhtml', '<html xmlns="%s" lang="en"><body><svg xmlns="%s" xml:lang="fr-CA"><circle/><foreignObject><p xmlns="%s">t</p></foreignObject></svg><p>u</p></body></html>' % (XHTML, SVG, XHTML)),
    ('xml', '<r xml:lang="en"><a><b xml:lang=""><c/></b></a><h:p xmlns:h="%s" lang="de"><h:b/><x/></h:p><d lang="fr"><e/></d></r>' % XHTML),
]


def run_det(sv, tier, i, n, res):
    import bs4
    descs = det_documents(tier)
    if i == 0:
        res.count('determination_documents', len(descs) + len(FOREIGN_DOCS))
    jobs = [('chain', d) for d in descs] + [('foreign', f) for f in FOREIGN_DOCS]
    for ji in range(i, len(jobs), n):
        what, d = jobs[ji]
        with warnings.catch_warnings():
            warnings.simplefilter('ignore')
            if what == 'chain':
                soup = build_det(d)
            else:
                soup = bs4.BeautifulSoup(d[1], 'xml' if d[0] in ('xhtml', 'xml') else d[0])
        ctx = R.Ctx(soup)
        for s in DET_SELECTORS:
            lst = (S.cx(S.cp(None, s)),)
            text = S.render(lst)
            r = _sel.run_case(sv, soup, lst, ctx=ctx, text=text)
            res.evaluations += 1
            st = r['status']
            if st == 'ok':
                res.outcome('agree')
                if r['want']:
                    res.nontrivial += 1
            elif st == 'unspecified':
                res.unspecified += 1
            else:
                res.outcome(st)
                src = str(soup)
                res.fail({'layer': 'det', 'what': what, 'desc': d, 'selector': lst, 'text': text},
                         {'kind': 'determination', 'direction': r.get('direction', r.get('exc', '')), 'doc': d[1] if what == 'chain' else 'foreign:' + d[0],
                          'empty_lang_on_path': ('""' in src or "=''" in src), 'iframe': 'iframe' in src, 'meta': 'ontent-' in src},
                         f'[{what} {d[1] if what == "chain" else d[0]}] {r.get("detail", "")} in {src[:300]}')
        if ji % 211 == 0:
            res.sample({'document': str(soup)[:200], 'selectors': [S.render((S.cx(S.cp(None, s)),)) for s in DET_SELECTORS]})


def run_shard(desc):
    from .. import common
    sv = common.bind()
    warnings.simplefilter('ignore')
    res = shard.Result()
    if desc[0] == 'edit':
        # the language is a function of the tree as it is now: query, edit <meta>/lang, query again (shared with C04's edit layer)
        from . import c04
        c04.run_edits(sv, desc[1], desc[2], res)
        for f in res.failures:
            f['case']['layer'] = 'edit'
    elif desc[0] == 'filter':
        run_filter(sv, desc[1], desc[2], desc[3], res)
    elif desc[0] == 'e2e':
        run_e2e(sv, desc[1], desc[2], desc[3], res)
    else:
        run_det(sv, desc[1], desc[2], desc[3], res)
    return res


def replay(case):
    from .. import common
    import bs4
    sv = common.bind()
    warnings.simplefilter('ignore')
    if case['layer'] == 'edit':
        from . import c04
        return c04.replay(case)
    if case['layer'] == 'filter':
        f, how = live_filter(sv)
        got, want = bool(f(case['range'], case['tag'])), RL.extended_filter(case['range'], case['tag'])
        return None if got == want else ({'kind': 'filter', 'range': range_class(case['range'])}, f'{got} vs RFC {want}')
    if case['layer'] == 'e2e':
        r = shard.Result()
        soup = bs4.BeautifulSoup('<div></div>', 'html.parser')
        ts = words(TSUB, 2) + ['en-latn-DE', 'de-x-a', 'de-a-x-en', 'en-1996-a']
        for t in ts:
            p = soup.new_tag('p')
            p['lang'] = t
            soup.div.append(p)
        got = [x['lang'] for x in sv.select(case['text'], soup)]
        if case.get('form'):
            law = dict(COMPOUND_FORMS)[case['form']]
            want = [t for t in ts if law(case['ranges'][0], case['ranges'][1], t)]
            return None if got == want else ({'kind': 'e2e-compound'}, f'{got} vs {want}')
        want = [t for t in ts if any(RL.extended_filter(r_, t) for r_ in case['ranges'])]
        return None if got == want else ({'kind': 'e2e'}, f'{got} vs {want}')
    d = _sel.tup(case['desc'])
    if case['what'] == 'chain':
        soup = build_det(d)
    else:
        soup = bs4.BeautifulSoup(d[1], 'xml' if d[0] in ('xhtml', 'xml') else d[0])
    lst = _sel.tup(case['selector'])
    r = _sel.run_case(sv, soup, lst, text=case['text'])
    if r['status'] in ('ok', 'unspecified'):
        return None
    return {'kind': 'determination', 'direction': r.get('direction', '')}, r.get('detail', '')


def check(tier, seed):
    res, info = shard.run(__name__, shards(tier, seed), order_seed=seed)
    k = 3 if tier == 'quick' else 4
    cov = {
        'rule': ('(i) every (range, tag) pair over the subtag alphabets up to k subtags on the live filter, and a sub-square plus range lists end to '
                 'end through :lang(); (ii) every language-determination document x 6 selectors against the inheritance reference; non-trivial = '
                 'the reference says "match" for the pair / selects an element'),
        'exhaustive': not info['cap_hit'], 'max_subtags': {'range': 4, 'tag': k}, 'range_subtags': list(RSUB), 'tag_subtags': list(TSUB),
        'filter_seam': res.extra.get('filter_seam'),
    }
    return {'result': res, 'coverage': cov, 'info': info,
            'assumptions': ['ranges and tags with empty subtags (other than the empty string itself) are not enumerated',
                            'XHTML <meta> pragma, pragmas with empty/multiple/comma values and xml:lang on XHTML elements are not asserted']}
