"""Selector AST (plain tuples), canonical renderer, weight-bounded enumerators.

    List     = tuple of Complex
    Complex  = ('cx', (Compound, ...), (comb, ...))      len(combs) == len(compounds) - 1, comb in ' ', '>', '+', '~'
    Compound = ('cp', Type|None, (Simple, ...))           Type = (ns, name)  ns: None (no prefix), '' ('|E'), '*', 'pfx'
    Simple   = ('id', v) | ('class', v) | ('attr', ns, name, op, value, flag) | ('pc', name)
             | ('fn', name, List)            name in not/is/where/matches
             | ('has', ((comb, Complex), ...))
             | ('nth', kind, a, b, ofS|None, spelling|None)   kind in child/last-child/of-type/last-of-type
             | ('lang', (range, ...)) | ('dir', 'ltr'|'rtl') | ('contains', own, (text, ...), alias)
             | ('custom', name)
The reference evaluates these ASTs; soupsieve only ever sees the rendered text.
"""
from __future__ import annotations
import itertools
from ..ref.ident import serialize_ident

COMBS = (' ', '>', '+', '~')


def cp(typ=None, *simples):
    return ('cp', typ, tuple(simples))


def cx(*parts):
    """cx(c0, comb, c1, comb, c2...)"""
    return ('cx', tuple(parts[0::2]), tuple(parts[1::2]))


def T(name, ns=None):
    return (ns, name)


def css_string(s: str) -> str:
    out = ['"']
    for c in s:
        if c == '"' or c == '\\':
            out.append('\\' + c)
        elif c in '\n\r\f' or ord(c) < 0x20 or ord(c) == 0x7f:
            out.append('\\%x ' % ord(c))
        else:
            out.append(c)
    out.append('"')
    return ''.join(out)


def r_type(t):
    ns, name = t
    n = '*' if name == '*' else serialize_ident(name)
    if ns is None:
        return n
    if ns == '*':
        return '*|' + n
    return serialize_ident(ns) + '|' + n if ns else '|' + n


def r_nth(a, b):
    if a == 0:
        return str(b)
    s = '%dn' % a if a not in (1, -1) else ('n' if a == 1 else '-n')
    if b:
        s += '%+d' % b
    return s


def r_simple(s):
    k = s[0]
    if k == 'id':
        return '#' + serialize_ident(s[1])
    if k == 'class':
        return '.' + serialize_ident(s[1])
    if k == 'attr':
        _, ns, name, op, value, flag = s
        n = serialize_ident(name)
        if ns is not None:
            n = ('*' if ns == '*' else serialize_ident(ns)) + '|' + n
        if op is None:
            return '[' + n + ']'
        return '[' + n + op + css_string(value) + (' ' + flag if flag else '') + ']'
    if k == 'pc':
        return ':' + s[1]
    if k == 'fn':
        return ':' + s[1] + '(' + r_list(s[2]) + ')'
    if k == 'has':
        return ':has(' + ', '.join((c + ' ' if c != ' ' else '') + r_complex(x) for c, x in s[1]) + ')'
    if k == 'nth':
        _, kind, a, b, of_s, spelling = (s + (None,))[:6]
        arg = spelling if spelling is not None else r_nth(a, b)
        if of_s is not None:
            arg += ' of ' + r_list(of_s)
        return ':nth-' + kind + '(' + arg + ')'
    if k == 'lang':
        return ':lang(' + ', '.join(css_string(r) for r in s[1]) + ')'
    if k == 'dir':
        return ':dir(' + s[1] + ')'
    if k == 'contains':
        name = s[3] if len(s) > 3 and s[3] else ('-soup-contains-own' if s[1] else '-soup-contains')
        return ':' + name + '(' + ', '.join(css_string(t) for t in s[2]) + ')'
    if k == 'custom':
        return ':--' + s[1]
    if k == 'amp':
        return '&'
    raise ValueError(s)


def r_compound(c):
    _, typ, simples = c
    return (r_type(typ) if typ is not None else '') + ''.join(r_simple(s) for s in simples)


def r_complex(x):
    _, comps, combs = x
    out = [r_compound(comps[0])]
    for comb, c in zip(combs, comps[1:]):
        out.append(' ' if comb == ' ' else ' ' + comb + ' ')
        out.append(r_compound(c))
    return ''.join(out)


def r_list(lst):
    return ', '.join(r_complex(x) for x in lst)


render = r_list


# ---------------------------------------------------------------- enumerators
def weight(lst):
    def ws(s):
        if s[0] == 'fn':
            return 1 + weight(s[2])
        if s[0] == 'has':
            return 1 + sum(wx(x) for _, x in s[1])
        if s[0] == 'nth' and s[4] is not None:
            return 1 + weight(s[4])
        return 1

    def wx(x):
        return sum((1 if c[1] is not None else 0) + sum(ws(s) for s in c[2]) for c in x[1])
    return sum(wx(x) for x in lst)


def compounds(atoms, types, max_atoms):
    """All compounds with <= max_atoms atoms: optional type + a set (in given order) of distinct simples."""
    out = []
    for k in range(1, max_atoms + 1):
        for t in types:
            used = 1 if t is not None else 0
            m = k - used
            if m < 0:
                continue
            for combo in itertools.combinations(atoms, m):
                if used + m == k and (t is not None or m > 0):
                    out.append(cp(t, *combo))
    return out


def complexes(compounds1, max_compounds, combs=COMBS):
    """All chains of <= max_compounds compounds from compounds1 joined by every combinator."""
    out = [cx(c) for c in compounds1]
    if max_compounds >= 2:
        for a, b in itertools.product(compounds1, repeat=2):
            for k in combs:
                out.append(cx(a, k, b))
    if max_compounds >= 3:
        for a, b, c in itertools.product(compounds1, repeat=3):
            for k1, k2 in itertools.product(combs, repeat=2):
                out.append(cx(a, k1, b, k2, c))
    return out
