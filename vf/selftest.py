"""setup_cmd: offline self-check of the framework itself (never of /repo's behaviour).  Exit 0 when usable.

 * the tree under test imports from the expected place;
 * the reference models agree with independent authorities on spot checks that do not involve soupsieve:
   calendar vs datetime/calendar (years 1..9999), RFC 4647 section 3.3.2 examples, CSS Syntax identifier examples,
   An+B arithmetic vs brute force, the reference matcher on hand-evaluated Selectors-spec examples;
 * generators are not vacuous (floors on space sizes);
 * MANIFEST.json and any evidence files present validate against the schemas (when the tooling venv's jsonschema is available).
"""
from __future__ import annotations
import json
import os
import subprocess
import sys


def check_calendar():
    import calendar
    import datetime
    from .ref import calendar as C
    for y in range(1, 10000):
        assert C.weeks_in_year(y) == datetime.date(y, 12, 28).isocalendar()[1], y
        assert C.leap(y) == calendar.isleap(y), y
        assert C.weekday_jan1(y) == datetime.date(y, 1, 1).weekday(), y
        assert C.dec31_in_week1(y) == (datetime.date(y, 12, 31).isocalendar()[1] == 1), y
    for y in (1, 1900, 2000, 2019, 2020, 9999):
        for m in range(1, 13):
            assert C.days_in_month(y, m) == calendar.monthrange(y, m)[1]
    assert C.parse('date', '2020-02-29') == (2020, 2, 29) and C.parse('date', '2019-02-29') is None
    assert C.parse('week', '2020-W53') == (2020, 53) and C.parse('week', '2019-W53') is None
    assert C.parse('time', '24:00') is None and C.parse('number', '.5') == (0.5,) and C.parse('number', '1.') is None
    assert C.parse('date', '2020-01-01\n') is None and C.parse('month', '0999-01') == (999, 1) and C.parse('month', '999-01') is None
    assert C.out_of_range('time', (22, 0), (2, 0), (12, 0)) and not C.out_of_range('time', (22, 0), (2, 0), (23, 0))
    assert C.out_of_range('date', (2021, 1, 1), (2020, 1, 1), (2020, 6, 1))


def check_lang():
    from .ref.lang import extended_filter as f
    # RFC 4647, section 3.3.2, example for the range "de-*-DE" (also written "de-DE")
    for r in ('de-*-DE', 'de-DE'):
        for t in ('de-DE', 'de-de', 'de-Latn-DE', 'de-Latf-DE', 'de-DE-x-goethe', 'de-Latn-DE-1996', 'de-Deva-DE'):
            assert f(r, t), (r, t)
        for t in ('de', 'de-x-DE', 'de-Deva'):
            assert not f(r, t), (r, t)
    assert f('*', 'en') and not f('*', '') and f('', '') and not f('', 'en') and f('de-*', 'de') and f('*-*', 'x') and f('en', 'en-x')


def check_ident():
    from .ref import ident
    s = ident.serialize_ident('\x01-9 a\x7f')
    assert ident.consume_ident(s) == ('\x01-9 a\x7f', len(s))
    assert ident.consume_ident('\\31 23') == ('123', 6)
    assert ident.consume_ident('1a') is None and ident.consume_ident('-') is None and ident.consume_ident('--') == ('--', 2)
    assert ident.serialize_ident('-') == '\\-' and ident.serialize_ident('0a') == '\\30 a' and ident.serialize_ident('a b') == 'a\\ b'
    assert ident.consume_ident('\\110000') == ('�', 7) and ident.consume_ident('\\0') == ('�', 2)


def check_matcher():
    from .gen import trees as T, selectors as S
    from .ref import css as R
    for a in range(-6, 7):
        for b in range(-9, 10):
            for pos in range(1, 12):
                assert R.solve_nth(a, b, pos) == any(a * n + b == pos for n in range(0, 40)), (a, b, pos)
    kid = lambda n, a=(), k=(): ('e', n, tuple(a), tuple(k))
    # Selectors 4 examples, evaluated by hand
    soup = T.build_api((kid('html', (), (kid('body', (), (kid('div', (('class', ('a', 'b')), ('id', 'x')), (kid('p', (('lang', 'en-US'),), (('t', 'hi'),)), ('c', 'c'), kid('p'), kid('span', (('t', 'v-w'),)))),
                                                        kid('div', (), (('t', ' \n'),)))),)),))
    ids = lambda lst: [e.name for e in R.select(soup, lst)[0]]
    assert ids((S.cx(S.cp(S.T('p')), '+', S.cp(S.T('p'))),)) == ['p']                       # comment between siblings is ignored
    assert ids((S.cx(S.cp(None, ('pc', 'empty'))),)) == ['p', 'span', 'div']                 # whitespace-only div is empty
    assert ids((S.cx(S.cp(None, ('pc', 'root'))),)) == ['html']
    assert ids((S.cx(S.cp(S.T('div'), ('has', (('>', S.cx(S.cp(S.T('span')))),)))),)) == ['div']
    assert ids((S.cx(S.cp(None, ('attr', None, 't', '|=', 'v', None))),)) == ['span']
    assert ids((S.cx(S.cp(None, ('fn', 'not', (S.cx(S.cp(S.T('div'))), S.cx(S.cp(S.T('p'))))))),)) == ['html', 'body', 'span']
    assert ids((S.cx(S.cp(None, ('nth', 'last-of-type', 0, 1, None, None))),)) == ['html', 'body', 'p', 'span', 'div']
    assert ids((S.cx(S.cp(None, ('lang', ('en',)))),)) == ['p']
    assert ids((S.cx(S.cp(S.T('*')), '>', S.cp(S.T('html'))),)) == []                        # the document is not an element
    assert ids((S.cx(S.cp(None, ('attr', None, 't', '^=', '', None))),)) == []
    assert len(T.forests(3)) == 5 and len(T.forests(4)) == 14 and len(T.forests(5)) == 42


def check_floors():
    from .props import c01, c02, c06, c09, c05
    assert len(c01.structure_selectors("quick")) > 1500 and len(c01.functional_selectors('quick')) > 5000 and len(c01.attr_selectors('quick')) > 300
    assert len(c02.ab_box('quick')) == 63 and len(c02.spellings(2, 1)) >= 20
    assert len(c06.SIGMA) >= 70 and len(c09.bases('quick')) >= 100 and len(c05.POOL) >= 110


def check_schemas():
    vt = '/opt/veriftools/pyvenv/bin/python'
    if not os.path.exists(vt):
        return 'tooling venv absent: schema validation skipped'
    here = os.path.dirname(os.path.dirname(os.path.abspath(__file__)))
    code = (
        "import json,sys,glob,jsonschema\n"
        "m=json.load(open(sys.argv[1]+'/MANIFEST.json'));jsonschema.validate(m,json.load(open('/root/.vp/MANIFEST.schema.json')))\n"
        "s=json.load(open('/root/.vp/EVIDENCE.schema.json'))\n"
        "n=0\n"
        "for f in glob.glob(sys.argv[1]+'/evidence/*.json'):\n"
        "    jsonschema.validate(json.load(open(f)),s);n+=1\n"
        "print('manifest ok, %d evidence files ok'%n)\n")
    if not os.path.exists('/root/.vp/MANIFEST.schema.json'):
        return 'schemas absent: validation skipped'
    p = subprocess.run([vt, '-c', code, here], capture_output=True, text=True)
    if p.returncode != 0:
        raise AssertionError('schema validation failed: ' + p.stderr[-500:])
    return p.stdout.strip()


def main():
    from . import common
    sv = common.bind()
    assert os.path.abspath(sv.__file__).startswith(common.REPO)
    check_calendar()
    check_lang()
    check_ident()
    check_matcher()
    check_floors()
    msg = check_schemas()
    print('vf.selftest ok;', msg)
    return 0


if __name__ == '__main__':
    sys.exit(main())
