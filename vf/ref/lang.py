"""RFC 4647 section 3.3.2 extended filtering, verbatim, plus the two CSS/soupsieve rules the property states:
the empty range matches only an explicitly empty language tag and '*' only a non-empty one."""
from __future__ import annotations


def _lower(s):
    return ''.join(chr(ord(c) + 32) if 'A' <= c <= 'Z' else c for c in s)


def well_formed(s: str) -> bool:
    """No empty subtag (the empty string itself is handled separately)."""
    return s == '' or all(p != '' for p in s.split('-'))


def extended_filter(lang_range: str, tag: str) -> bool:
    if lang_range == '':
        return tag == ''
    if tag == '':
        return False
    r = _lower(lang_range).split('-')
    t = _lower(tag).split('-')
    # step 2
    if r[0] != '*' and r[0] != t[0]:
        return False
    ri, ti = 1, 1
    # step 3
    while ri < len(r):
        if r[ri] == '*':
            ri += 1
            continue
        if ti >= len(t):
            return False
        if r[ri] == t[ti]:
            ri += 1
            ti += 1
            continue
        if len(t[ti]) == 1:
            return False
        ti += 1
    return True
