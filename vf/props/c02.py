"""C02 — positional pseudo-classes implement An+B exactly.

Space: every (A, B) of a box x every spelling the grammar admits for that pair x the four pseudo-classes (x six
'of S' filters for :nth-child/:nth-last-child) against every sibling row of 0..L elements over {a, b} (x class c for the
'of S' layer) x interleavings of non-element nodes x contexts (ordinary parent, other parent, children of the document
object with doctype/comment neighbours, a detached element with no parent at all).
Oracle: position = 1-based index among the element siblings passing the filter (from the end for -last-);
match <=> the element passes the filter and some n >= 0 has A*n+B == position (solved directly).
Also: :first-child == :nth-child(1) etc. as equalities between soupsieve's own result lists.
"""
from __future__ import annotations
import itertools
from ..engine import shard
from ..gen import trees as T, selectors as S
from ..ref import css as R
from . import _sel

ID = 'C02'
LEVEL = 'exploration'
KINDS4 = ('child', 'last-child', 'of-type', 'last-of-type')
_CACHE = {}


def spellings(a, b):
    out = []
    if a == 0:
        out.append(str(b))
        if b >= 0:
            out.append('+%d' % b)
        heads = ['0n', '-0n', '+0n']
    else:
        if a == 1:
            heads = ['n', '+n', '1n', 'N']
        elif a == -1:
            heads = ['-n', '-1n', '-N']
        elif a > 0:
            heads = ['%dn' % a, '+%dn' % a, '%dN' % a, '0%dn' % a]
        else:
            heads = ['%dn' % a, '-0%dn' % -a]
    if b == 0:
        tails = ['', '+0', '-0', ' + 0']
    elif b > 0:
        tails = ['+%d' % b, ' + %d' % b, '+ %d' % b, ' +%d' % b, '/**/+/**/%d' % b, '+0%d' % b]
    else:
        tails = ['-%d' % -b, ' - %d' % -b, '- %d' % -b, '\t-\n%d' % -b, '/* c */-/* c */%d' % -b]
    for h in heads:
        for t in tails:
            out.append(h + t)
    if (a, b) == (2, 0):
        out += ['even', 'EVEN', ' even ']
    if (a, b) == (2, 1):
        out += ['odd', 'Odd', ' odd ']
    out.append(' ' + out[0] + ' ')
    return out


def ab_box(tier):
    if tier == 'quick':
        A, B = range(-3, 4), range(-4, 5)
        return [(a, b) for a in A for b in B]
    A = list(range(-4, 5)) + [-10, 10, -100, 100, 1000]
    B = list(range(-7, 8)) + [-10, 10, -100, 100, -1000, 1000]
    return [(a, b) for a in A for b in B]


OF_S = {
    'a': (S.cx(S.cp(S.T('a'))),),
    '.c': (S.cx(S.cp(None, ('class', 'c'))),),
    '*': (S.cx(S.cp(S.T('*'))),),
    'a, b.c': (S.cx(S.cp(S.T('a'))), S.cx(S.cp(S.T('b'), ('class', 'c')))),
    ':not(a)': (S.cx(S.cp(None, ('fn', 'not', (S.cx(S.cp(S.T('a'))),)))),),
    'p > a': (S.cx(S.cp(S.T('p')), '>', S.cp(S.T('a'))),),
}


def selectors(tier, layer):
    key = (tier, layer)
    if key in _CACHE:
        return _CACHE[key]
    out = []
    box = ab_box(tier)
    if layer == 'plain':
        for a, b in box:
            sp = spellings(a, b)
            for kind in KINDS4:
                for k, s in enumerate(sp):
                    # every spelling for nth-child; the other three kinds take every second spelling in quick
                    if tier == 'quick' and kind != 'child' and k % 2:
                        continue
                    out.append((S.cx(S.cp(None, ('nth', kind, a, b, None, s))),))
            out.append((S.cx(S.cp(S.T('a'), ('nth', 'child', a, b, None, None))),))
            out.append((S.cx(S.cp(None, ('fn', 'not', (S.cx(S.cp(None, ('nth', 'last-of-type', a, b, None, None))),)))),))
    else:
        small = [(a, b) for a, b in box if abs(a) <= 3 and abs(b) <= 4] if tier != 'quick' else \
                [(a, b) for a, b in box if abs(a) <= 2 and abs(b) <= 3]
        for a, b in small:
            for name, lst in OF_S.items():
                for kind in ('child', 'last-child'):
                    out.append((S.cx(S.cp(None, ('nth', kind, a, b, lst, None))),))
            out.append((S.cx(S.cp(S.T('b'), ('nth', 'child', a, b, OF_S['.c'], spellings(a, b)[-2]))),))
        # several positional pseudo-classes in one compound: each must hold on its own (a conjunction, never merged)
        tiny = [(0, 1), (0, 2), (2, 0), (2, 1), (-1, 2), (1, 2)]
        for (a1, b1), (a2, b2) in itertools.product(tiny, repeat=2):
            out.append((S.cx(S.cp(None, ('nth', 'child', a1, b1, None, None), ('nth', 'last-child', a2, b2, None, None))),))
            out.append((S.cx(S.cp(None, ('nth', 'child', a1, b1, None, None), ('nth', 'child', a2, b2, None, None))),))
            out.append((S.cx(S.cp(None, ('nth', 'of-type', a1, b1, None, None), ('nth', 'child', a2, b2, OF_S['.c'], None))),))
    _CACHE[key] = out
    return out


def rows(tier, layer):
    L = (4 if tier == 'quick' else 6) if layer == 'plain' else (4 if tier == 'quick' else 5)
    labels = [('a', ()), ('b', ())] if layer == 'plain' else \
             [('a', ()), ('b', ()), ('a', (('class', ('c',)),)), ('b', (('class', ('c',)),))]
    out = []
    for n in range(0, L + 1):
        for combo in itertools.product(labels, repeat=n):
            out.append(tuple(('e', name, attrs, ()) for name, attrs in combo))
    return out


def documents(tier, layer):
    """-> list of (context, forest, detached?)"""
    key = ('docs', tier, layer)
    if key in _CACHE:
        return _CACHE[key]
    out = []
    inter = [('none', None), ('text', ('t', 'x')), ('comment', ('c', 'k')), ('ws', ('t', '\n ')), ('cdata', ('cd', 'd')), ('pi', ('pi', 'p q')), ('decl', ('decl', 'ENTITY e "x"'))]
    if layer != 'plain':
        inter = inter[:3]
    for row in rows(tier, layer):
        for iname, node in inter:
            if node is None:
                kids = row
            else:
                kids = T.fill_gaps(row, lambda i, top, node=node: node)
            if iname in ('none', 'text') or len(row) <= 3:
                out.append(('parent-p/' + iname, (('e', 'p', (), kids),), False))
                if layer != 'plain':
                    out.append(('parent-q/' + iname, (('e', 'q', (), kids),), False))
            if iname == 'none' and 2 <= len(row) <= 4 and sum(1 for n_ in row if n_[1] == 'a') >= 2:
                # HTML tree edited through the API: every second <a> is stored as <A>; for HTML documents it is the same element type
                seen_a = [0]

                def up(n_):
                    if n_[1] == 'a':
                        seen_a[0] += 1
                        if seen_a[0] % 2 == 0:
                            return (n_[0], 'A') + tuple(n_[2:])
                    return n_
                out.append(('parent-p/stored-case', (('e', 'p', (), tuple(up(n_) for n_ in row)),), False))
            if iname == 'none' and 2 <= len(row) <= 4:
                # children of an <iframe> (html.parser keeps them as elements): positions among them are ordinary positions
                out.append(('parent-iframe/none', (('e', 'div', (), (('e', 'iframe', (), kids), ('e', 'b', (), ()))),), False))
            if iname in ('none', 'comment') and row:
                # children of the document object itself, with a doctype and comments around
                out.append(('document/' + iname, (('dt', 'html'), ('c', 'k')) + kids + (('c', 'k'),), False))
        # leading / trailing non-element nodes only
        if row and len(row) <= 4:
            out.append(('parent-p/lead', (('e', 'p', (), (('t', 'x'), ('c', 'k')) + row),), False))
            out.append(('parent-p/trail', (('e', 'p', (), row + (('c', 'k'), ('t', 'x'))),), False))
        if len(row) == 1:
            out.append(('detached', row, True))
            out.append(('detached-with-kids', (('e', 'a', (), (('e', 'a', (), ()), ('t', 'x'), ('e', 'b', (), ()))),), True))
    _CACHE[key] = out
    return out


NS_ROWS_XML = ('<r xmlns:p="urn:a" xmlns:q="urn:b"><e/><p:e/><q:e/><e/><p:f/><e xmlns="urn:a"/><q:e/></r>',
               '<r xmlns="urn:a" xmlns:q="urn:b"><e/><q:e/><e/><q:f/><q:e/><e/></r>',
               # one prefix bound to two URIs, two prefixes bound to one URI: the type of an element is (URI, local name), never the prefix
               '<r xmlns:p="urn:a" xmlns:q="urn:a"><p:e/><q:e/><p:e xmlns:p="urn:b"/><q:e/><p:e/></r>')
NS_MAPS = [None, {'x': 'urn:a'}, {'': 'urn:a'}, {'': 'urn:b', 'x': 'urn:a'}, {'': 'urn:zz'}]


def run_ns(sv, res):
    """Sibling rows whose elements sit in different namespaces: plain :nth-* counts every element sibling; of-type counts same name AND namespace."""
    import bs4
    import warnings
    for m in NS_ROWS_XML:
        with warnings.catch_warnings():
            warnings.simplefilter('ignore')
            soup = bs4.BeautifulSoup(m, 'xml')
        for nsmap in NS_MAPS:
            ctx = R.Ctx(soup, nsmap)
            for kind in KINDS4:
                for a, b in ((0, 1), (0, 2), (2, 1), (-1, 3), (1, 2), (3, 0)):
                    for typ in ((None, '*') if nsmap and '' in nsmap else None, ('*', '*'), ('x', 'e') if nsmap and 'x' in nsmap else ('*', 'e')):
                        lst = (S.cx(S.cp(typ, ('nth', kind, a, b, None, None))),)
                        r = _sel.run_case(sv, soup, lst, namespaces=nsmap, ctx=ctx)
                        res.evaluations += 1
                        if r['status'] == 'ok':
                            res.outcome('agree')
                            res.nontrivial += 1 if r['want'] else 0
                        elif r['status'] != 'unspecified':
                            sig = {'kind': r['status'], 'direction': r.get('direction', r.get('exc', '')), 'context': 'namespaced-siblings', 'entry': 'select'}
                            sig.update(nth_feature(lst))
                            res.fail({'layer': 'ns', 'markup': m, 'map': nsmap, 'selector': lst, 'text': S.render(lst)}, sig, f'[map {nsmap!r}] ' + r.get('detail', ''))
            # `of S` with S a bare or namespaced type: counted among ALL siblings matching S (whatever their namespace, for a bare name without a
            # default namespace), which is not the same set as "siblings of the same type"
            ofs = [(S.cx(S.cp((None, 'e'))),), (S.cx(S.cp(('*', 'e'))),), (S.cx(S.cp((None, 'e'))), S.cx(S.cp((None, 'f'))))]
            if nsmap and 'x' in nsmap:
                ofs.append((S.cx(S.cp(('x', 'e'))),))
            for kind in ('child', 'last-child'):
                for a, b in ((0, 1), (0, 2), (2, 1), (-1, 3), (1, 2)):
                    for of in ofs:
                        for typ in (None, ('*', '*')):
                            lst = (S.cx(S.cp(typ, ('nth', kind, a, b, of, None))),)
                            r = _sel.run_case(sv, soup, lst, namespaces=nsmap, ctx=ctx)
                            res.evaluations += 1
                            if r['status'] == 'ok':
                                res.outcome('agree')
                                res.nontrivial += 1 if r['want'] else 0
                            elif r['status'] != 'unspecified':
                                sig = {'kind': r['status'], 'direction': r.get('direction', r.get('exc', '')), 'context': 'namespaced-siblings', 'entry': 'select'}
                                sig.update(nth_feature(lst))
                                res.fail({'layer': 'ns', 'markup': m, 'map': nsmap, 'selector': lst, 'text': S.render(lst)}, sig, f'[map {nsmap!r}] ' + r.get('detail', ''))
            for x, y in ((':first-child', ':nth-child(1)'), (':last-child', ':nth-last-child(1)'), (':only-child', ':nth-child(1):nth-last-child(1)')):
                for pre in ('*|*', ''):
                    ga, gb = sv.select(pre + x, soup, namespaces=nsmap), sv.select(pre + y, soup, namespaces=nsmap)
                    res.evaluations += 1
                    if [id(e) for e in ga] != [id(e) for e in gb]:
                        res.fail({'layer': 'ns-equiv', 'markup': m, 'map': nsmap, 'pair': [pre + x, pre + y]}, {'kind': 'equivalence', 'pair': x, 'context': 'namespaced-siblings'},
                                 f'{pre + x!r} and {pre + y!r} differ under map {nsmap!r}: {ga} vs {gb}')
    return res


def shards(tier, seed):
    out = [('ns', tier, 0, 1)]
    for layer, n in (('plain', 48 if tier == 'quick' else 160), ('ofS', 32 if tier == 'quick' else 96), ('equiv', 1)):
        for i in range(n):
            out.append((layer, tier, i, n))
    return out


_DOCS = {}


def built(tier, layer):
    key = (tier, layer)
    if key not in _DOCS:
        out = []
        for ctxname, forest, detached in documents(tier, layer):
            for xml in (False, True):
                if xml and tier == 'quick' and not ctxname.endswith('/none'):
                    continue
                if detached:
                    el = T.build_detached(forest[0], xml)
                    out.append((ctxname, forest, xml, el, R.Ctx(el), True))
                else:
                    soup = T.build_api(forest, xml)
                    out.append((ctxname, forest, xml, soup, R.Ctx(soup), False))
        _DOCS[key] = out
    return _DOCS[key]


def check_detached(sv, el, ctx, lst, text):
    """A parentless element: match() on the element itself."""
    try:
        with shard.deadline(10):
            got = sv.match(text, el)
    except shard.CaseTimeout:
        return {'status': 'timeout', 'detail': f'match({text!r}) on a parentless element did not return'}
    except Exception as e:
        return {'status': 'raise', 'exc': type(e).__name__, 'detail': f'match({text!r}) on a parentless element raised {e!r}'}
    want = ctx.match_list(el, lst, True)
    if want is None:
        return {'status': 'unspecified'}
    if bool(got) != want:
        return {'status': 'mismatch', 'direction': 'extra' if got else 'missing',
                'detail': f'match({text!r}, <parentless {el.name}>) = {got}, reference {want}'}
    return {'status': 'ok', 'want': [el] if want else []}


def nth_feature(lst):
    """(kind, sign(A), sign(B), has ofS) of the first nth atom, for the signature."""
    for x in lst:
        for c in x[1]:
            for s in c[2]:
                if s[0] == 'nth':
                    sg = lambda v: 'neg' if v < 0 else ('zero' if v == 0 else 'pos')
                    return {'nth': s[1], 'A': sg(s[2]), 'B': sg(s[3]), 'ofS': s[4] is not None}
                if s[0] == 'fn':
                    r = nth_feature(s[2])
                    if r:
                        return r
    return {}


def run_shard(desc):
    from .. import common
    sv = common.bind()
    layer, tier, i, n = desc
    res = shard.Result()
    if layer == 'ns':
        return run_ns(sv, res)
    if layer == 'equiv':
        return run_equiv(sv, tier, res)
    docs = built(tier, layer)
    sels = selectors(tier, layer)
    if i == 0:
        res.count('documents_' + layer, len(docs))
        res.count('selectors_' + layer, len(sels))
    for si in range(i, len(sels), n):
        lst = sels[si]
        text = S.render(lst)
        sv.purge()
        fails = 0
        for di, (ctxname, forest, xml, target, ctx, detached) in enumerate(docs):
            rs = []
            if detached:
                rs.append(('match', check_detached(sv, target, ctx, lst, text)))
            rs.append(('select', _sel.run_case(sv, target, lst, ctx=ctx, text=text)))
            for entry, r in rs:
                res.evaluations += 1
                st = r['status']
                if st == 'ok':
                    res.outcome('agree')
                    w = r.get('want', [])
                    if w:
                        res.nontrivial += 1
                elif st == 'unspecified':
                    res.unspecified += 1
                else:
                    res.outcome(st)
                    fails += 1
                    if fails <= 2:
                        sig = {'kind': st, 'direction': r.get('direction', r.get('exc', '')), 'context': ctxname.split('/')[0],
                               'entry': entry}
                        sig.update(nth_feature(lst))
                        res.fail({'layer': layer, 'forest': forest, 'xml': xml, 'detached': detached, 'selector': lst,
                                  'text': text, 'entry': entry}, sig, r.get('detail', ''))
                    else:
                        res.failure_count += 1
        if si % 301 == 0:
            res.sample({'selector': text, 'doc': T.to_markup(docs[min(40, len(docs) - 1)][1]),
                        'selected': [_sel.brief(x) for x in sv.select(text, docs[min(40, len(docs) - 1)][3])]})
    return res


EQUIV = [
    (':first-child', ':nth-child(1)'), (':last-child', ':nth-last-child(1)'),
    (':only-child', ':nth-child(1):nth-last-child(1)'), (':first-of-type', ':nth-of-type(1)'),
    (':last-of-type', ':nth-last-of-type(1)'), (':only-of-type', ':nth-of-type(1):nth-last-of-type(1)'),
    (':nth-child(even)', ':nth-child(2n)'), (':nth-child(odd)', ':nth-child(2n+1)'),
    (':nth-child(n)', '*'), (':nth-child(2n+1 of *)', ':nth-child(2n+1)'), (':nth-last-of-type(-n+2)', ':nth-last-of-type(-1n + 2)'),
]


def run_equiv(sv, tier, res):
    import copy
    import pickle
    docs = built(tier, 'plain')
    # a pickled / deep-copied compiled selector must select what the original selects (all four kinds, of S, negative terms)
    rt = [':nth-child(2n+1)', ':nth-last-child(2)', ':nth-of-type(2)', ':nth-last-of-type(-n+2)', ':nth-last-child(1 of a)', ':nth-child(-2n+3 of b)',
          ':first-child', ':last-child', ':only-of-type', ':last-of-type', 'a:nth-last-child(odd)', ':not(:nth-last-of-type(1))']
    for text in rt:
        c = sv.compile(text)
        clones = [('deepcopy', copy.deepcopy(c)), ('copy', copy.copy(c))] + [('pickle%d' % p, pickle.loads(pickle.dumps(c, p))) for p in (0, 2, pickle.HIGHEST_PROTOCOL)]
        for how, cl in clones:
            for ctxname, forest, xml, target, ctx, detached in docs[::3]:
                a = [c.match(target)] if detached else c.select(target)
                b = [cl.match(target)] if detached else cl.select(target)
                res.evaluations += 1
                same = (a == b) if detached else (len(a) == len(b) and all(p is q for p, q in zip(a, b)))
                if not same:
                    res.fail({'layer': 'equiv', 'forest': forest, 'xml': xml, 'detached': detached, 'pair': [text, how]},
                             {'kind': 'clone-selects-differently', 'how': how.rstrip('0123456789')}, f'{how} of compile({text!r}) selects differently on {T.to_markup(forest)!r}')
                    break
                res.outcome('clone-same')
    for x, y in EQUIV:
        for ctxname, forest, xml, target, ctx, detached in docs:
            if detached:
                a, b = sv.match(x, target), sv.match(y, target)
            else:
                a, b = sv.select(x, target), sv.select(y, target)
            res.evaluations += 1
            same = (a == b) if detached else (len(a) == len(b) and all(p is q for p, q in zip(a, b)))
            if a:
                res.nontrivial += 1
            if not same:
                res.fail({'layer': 'equiv', 'forest': forest, 'xml': xml, 'detached': detached, 'pair': [x, y]},
                         {'kind': 'equivalence', 'pair': x}, f'{x!r} and {y!r} differ on {T.to_markup(forest)!r}: {a} vs {b}')
            else:
                res.outcome('equivalent')
    return res


def replay(case):
    from .. import common
    sv = common.bind()
    if case['layer'] in ('ns', 'ns-equiv'):
        r = shard.Result()
        run_ns(sv, r)
        for f in r.failures:
            if f['case'].get('text') == case.get('text') and f['case'].get('pair') == case.get('pair') and f['case']['map'] == case['map']:
                return f['sig'], f['detail']
        return (r.failures[0]['sig'], r.failures[0]['detail']) if r.failures else None
    forest = _sel.tup(case['forest'])
    xml = case['xml']
    target = T.build_detached(forest[0], xml) if case['detached'] else T.build_api(forest, xml)
    if case['layer'] == 'equiv' and case['pair'][1].startswith(('deepcopy', 'copy', 'pickle')):
        import copy
        import pickle
        text, how = case['pair']
        c = sv.compile(text)
        cl = copy.deepcopy(c) if how == 'deepcopy' else (copy.copy(c) if how == 'copy' else pickle.loads(pickle.dumps(c, int(how[6:]))))
        a = [c.match(target)] if case['detached'] else c.select(target)
        b = [cl.match(target)] if case['detached'] else cl.select(target)
        same = (a == b) if case['detached'] else (len(a) == len(b) and all(p is q for p, q in zip(a, b)))
        return None if same else ({'kind': 'clone-selects-differently', 'how': how.rstrip('0123456789')}, f'{how} of {text!r}: {b} vs {a}')
    if case['layer'] == 'equiv':
        x, y = case['pair']
        if case['detached']:
            a, b = sv.match(x, target), sv.match(y, target)
            same = a == b
        else:
            a, b = sv.select(x, target), sv.select(y, target)
            same = len(a) == len(b) and all(p is q for p, q in zip(a, b))
        return None if same else ({'kind': 'equivalence', 'pair': x}, f'{x!r} vs {y!r}: {a} vs {b}')
    lst = _sel.tup(case['selector'])
    ctx = R.Ctx(target)
    if case.get('entry') == 'match':
        r = check_detached(sv, target, ctx, lst, case['text'])
    else:
        r = _sel.run_case(sv, target, lst, ctx=ctx, text=case['text'])
    if r['status'] in ('ok', 'unspecified'):
        return None
    sig = {'kind': r['status'], 'direction': r.get('direction', r.get('exc', ''))}
    sig.update(nth_feature(lst))
    return sig, r.get('detail', '')


def check(tier, seed):
    res, info = shard.run(__name__, shards(tier, seed), order_seed=seed)
    box = ab_box(tier)
    cov = {
        'rule': ('every (A,B) of the box in every spelling x 4 pseudo-classes (x 6 of-S filters) x every sibling row/interleaving/'
                 'context document; non-trivial = the reference selects at least one element; cases distinct by construction'),
        'exhaustive': not info['cap_hit'],
        'bounds': {'A': [min(a for a, _ in box), max(a for a, _ in box)], 'B': [min(b for _, b in box), max(b for _, b in box)],
                   'pairs': len(box), 'row_length_max': 4 if tier == 'quick' else 6},
    }
    return {'result': res, 'coverage': cov, 'info': info,
            'assumptions': ['reference arithmetic in vf/ref/css.py (solve_nth); rows over element names a/b only',
                            'the root element and other children of the document object count as one sibling list; '
                            'a parentless element is position 1 of 1']}
