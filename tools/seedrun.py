#!/venv/bin/python
"""Apply a seeded change in a scratch worktree of /repo, confirm it (tests green, demo red) and run checks on it.

usage: tools/seedrun.py <seed_dir> <PROP>[,<PROP>...] [--tier quick|thorough] [--no-tests]
Never touches /repo's working tree; the scratch worktree is removed afterwards.
"""
import os, subprocess, sys, tempfile, time, json

def sh(cmd, **kw):
    return subprocess.run(cmd, shell=isinstance(cmd, str), capture_output=True, text=True, **kw)

def main():
    args = [a for a in sys.argv[1:] if not a.startswith('--')]
    seed_dir, props = os.path.abspath(args[0]), args[1].split(',')
    tier = 'quick'
    if '--tier' in sys.argv:
        tier = sys.argv[sys.argv.index('--tier') + 1]
        props = [p for p in props if p != tier]
    wt = tempfile.mkdtemp(prefix='seedrun-', dir='/tmp')
    os.rmdir(wt)
    out = {'seed': seed_dir}
    try:
        r = sh(['git', '-C', '/repo', 'worktree', 'add', '-q', '--detach', wt, 'HEAD'])
        assert r.returncode == 0, r.stderr
        r = sh(['git', '-C', wt, 'apply', os.path.join(seed_dir, 'patch.diff')])
        out['applies'] = r.returncode == 0
        if r.returncode:
            print('patch does not apply:', r.stderr)
            return 2
        env = dict(os.environ, PYTHONPATH=wt, PYTHONHASHSEED='0', PYTHONDONTWRITEBYTECODE='1')
        if '--no-tests' not in sys.argv:
            r = sh(['/venv/bin/python', '-m', 'pytest', '-q', '-p', 'no:cacheprovider', '-x'], cwd=wt, env=env, timeout=900)
            out['tests'] = r.stdout.strip().splitlines()[-1] if r.stdout.strip() else r.stderr[-200:]
        demo = os.path.join(seed_dir, 'demo.py')
        if os.path.exists(demo):
            r = sh(['/venv/bin/python', demo], env=env, timeout=300, cwd='/tmp')
            out['demo_with_patch_exit'] = r.returncode
            r = sh(['/venv/bin/python', demo], env=dict(env, PYTHONPATH='/repo'), timeout=300, cwd='/tmp')
            out['demo_clean_exit'] = r.returncode
        for p in props:
            t0 = time.time()
            r = sh(['/venv/bin/python', '-m', 'vf.run', p, '--tier', tier], cwd=os.environ.get('VERIF_HOME', '/verif'),
                   env=dict(os.environ, VERIF_REPO=wt), timeout=7200)
            lines = [l for l in r.stdout.splitlines() if l.startswith(('VIOLATION', 'KNOWN', '  sig', '  '))][:6]
            out[p] = {'exit': r.returncode, 'wall': round(time.time() - t0, 1), 'lines': lines,
                      'summary': (r.stdout.strip().splitlines() or [''])[-1][:300], 'stderr': r.stderr[-300:]}
    finally:
        sh(['git', '-C', '/repo', 'worktree', 'remove', '--force', wt])
        sh(['rm', '-rf', wt])
    print(json.dumps(out, indent=1))
    return 0

sys.exit(main())
