ENGINES = [
    {'name': 'E1 small-scope differential exploration', 'path': 'vf/engine/shard.py', 'serves_properties': [],
     'kind_free_text': 'bounded-exhaustive enumeration of (tree, selector, argument) tuples executed on the real code, each checked against a reference model or a relational oracle; sharded over 16 processes'},
]
NOTES = ('All checks run /venv/bin/python with PYTHONPATH=/repo PYTHONHASHSEED=0 and import the working tree afresh; '
         'VERIF_REPO=<dir> points them at another checkout (used for seeded changes). known_findings.json lists open and fixed defects.')
NOT_APPLICABLE = {}
CHECKS = {
    'C10': {
        'engine': 'E1', 'level': 'exploration', 'design_ref': 'DESIGN.md §3 C10',
        'technique': 'bounded-exhaustive enumeration of strings (all code points x 7 contexts; all words <=3 over 14 chars) on the real escape()/parser, against an independent CSS identifier model and a decoy document',
        'text': 'Every Unicode code point (thorough: all 1 114 112; quick: 0-0x2FFF, every class boundary, astral picks) in seven positions, plus all short words over a 14-character alphabet of troublemakers, is escaped, re-read by an independent CSS-Syntax identifier consumer and by soupsieve, and used to select among decoys. Exhaustive over the stated space; says nothing about longer strings mixing more than three special characters.',
        'note': 'bs4 stores attribute values verbatim for API-built documents; the reference identifier consumer (vf/ref/ident.py) is trusted; surrogates are expected to round-trip unchanged as the property states.',
    },
}
