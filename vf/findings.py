"""Known findings: committed file, never written at run time.

Entry: {"property": "C18", "status": "open"|"fixed", "what": "...", "signature": {...}, "commit": "..."}
An OPEN entry matches a witness when every key of its signature equals the witness's signature value
(a list in the entry means "any of these").  FIXED entries match nothing: if the failure returns it is a VIOLATION.
"""
from __future__ import annotations
import json
import os
from .common import VERIF

PATH = os.path.join(VERIF, 'known_findings.json')


def load():
    try:
        with open(PATH) as f:
            return json.load(f)['findings']
    except FileNotFoundError:
        return []


def match(prop: str, sig: dict):
    for e in load():
        if e.get('property') != prop or e.get('status') != 'open':
            continue
        want = e.get('signature') or {}
        if not want:
            continue
        ok = True
        for k, v in want.items():
            have = sig.get(k, None)
            if isinstance(v, list):
                if have not in v:
                    ok = False
                    break
            elif have != v:
                ok = False
                break
        if ok:
            return e
    return None
