"""C12 — namespace selectors compare namespace URIs through the supplied prefix map.

Space (complete in quick): XML documents (parsed by lxml-xml and built through the bs4 API) whose elements take every
namespace assignment from {none, U1 by default declaration, U1 by prefix p, U2 by prefix q, U2 by prefix p redeclared} and whose
attributes are every subset of {k, p:k, q:k}; html5lib documents with inline SVG/MathML and xlink:href; x 7 caller maps (empty,
x->U1, x->U2, p->U2 colliding with the document's p, default U1, default U1 + x->U2, x->'') x every selector form
(E, *|E, |E, x|E, y|E, x|*, *|*, |*, [k], [|k], [*|k], [x|k], [y|k], implied universal), alone, inside :not()/:is(), combined
with an HTML-only pseudo-class, and in two-form compounds (thorough).
Oracle: reference over (el.namespace, el.name) and the namespace/name of each attribute key as bs4 stores them; document
prefixes are never consulted; an unmapped prefix matches nothing.
"""
from __future__ import annotations
import itertools
import warnings
from ..engine import shard
from ..gen import trees as T, selectors as S
from ..ref import css as R
from . import _sel

ID = 'C12'
LEVEL = 'exploration'
U1, U2 = 'urn:one', 'urn:two'
SVG = 'http://www.w3.org/2000/svg'
XLINK = 'http://www.w3.org/1999/xlink'
MATHML = 'http://www.w3.org/1998/Math/MathML'
XHTML = 'http://www.w3.org/1999/xhtml'

MAPS = {
    'empty': None, 'x->U1': {'x': U1}, 'x->U2': {'x': U2}, 'p->U2': {'p': U2, 'x': U1}, 'default-U1': {'': U1},
    'default-U1+x->U2': {'': U1, 'x': U2}, "x->''": {'x': ''},
}
HMAPS = {'empty': None, 'svg': {'svg': SVG, 'xlink': XLINK, 'x': XHTML}, 'default-xhtml': {'': XHTML, 'svg': SVG, 'xlink': XLINK},
         'p-is-svg': {'p': SVG, 'x': MATHML}}
# element namespace assignments: (name-prefix, declaration string on the element, uri)
ASSIGN = {
    'none': ('', '', None),
    'U1-default': ('', ' xmlns="%s"' % U1, U1),
    'U1-p': ('p:', ' xmlns:p="%s"' % U1, U1),
    'U2-q': ('q:', ' xmlns:q="%s"' % U2, U2),
    'U2-p-redeclared': ('p:', ' xmlns:p="%s"' % U2, U2),
}
ATTRS = ['k', 'p:k', 'q:k']


def xml_documents(tier):
    import bs4
    out = []
    keys = list(ASSIGN)
    subsets = [c for r in range(4) for c in itertools.combinations(ATTRS, r)]
    with warnings.catch_warnings():
        warnings.simplefilter('ignore')
        for a1, a2 in itertools.product(keys, repeat=2):
            for sub in subsets:
                for rootdecl in ('', ' xmlns="%s"' % U1):
                    if tier == 'quick' and rootdecl and (keys.index(a1) + keys.index(a2) + len(sub)) % 2:
                        continue
                    p1, d1, _ = ASSIGN[a1]
                    p2, d2, _ = ASSIGN[a2]
                    attrs = ''.join(' %s="%s"' % (a, 'v' + a[0]) for a in sub)
                    # attribute prefixes need declarations in scope: declare both on the root with the root's own bindings
                    m = ('<r xmlns:p="%s" xmlns:q="%s"%s><%se%s%s class="c"><%sf%s/></%se><%se%s k="w"/></r>'
                         % (U1, U2, rootdecl, p1, d1, attrs, p2, d2, p1, p2, d2))
                    try:
                        soup = bs4.BeautifulSoup(m, 'xml')
                    except Exception:
                        continue
                    out.append(('xml:%s/%s/%s/%s' % (a1, a2, '+'.join(sub) or '-', 'rootdefault' if rootdecl else 'plain'), m, 'xml'))
        if tier != 'quick':
            for a1, a2, a3 in itertools.product(keys, repeat=3):
                p1, d1, _ = ASSIGN[a1]
                p2, d2, _ = ASSIGN[a2]
                p3, d3, _ = ASSIGN[a3]
                m = ('<r xmlns:p="%s" xmlns:q="%s"><%se%s p:k="1" q:k="2"><%sf%s k="3"><%se%s/></%sf></%se></r>'
                     % (U1, U2, p1, d1, p2, d2, p3, d3, p2, p1))
                out.append(('xml3:%s/%s/%s' % (a1, a2, a3), m, 'xml'))
    return out


def api_documents():
    """API-built XML trees: prefixes and URIs are bound freely (the document's prefixes must never be compared)."""
    out = []
    nss = [None, ('p', U1), ('q', U2), ('p', U2), ('x', U2), ('', U1), ('y', '')]
    akeys = [(), ('k',), (('p', 'k', U1),), (('x', 'k', U2), 'k'), (('p', 'k', U1), ('q', 'k', U2)), (('q', 'k', U2), ('p', 'k', U1))]
    for n1, n2 in itertools.product(nss, repeat=2):
        for ak in akeys:
            attrs = tuple((a, 'v') for a in ak)
            forest = (('e', 'r', (), (('e', 'e', attrs + (('class', 'c'),), (('e', 'f', (), (), n2),), n1), ('e', 'e', (('k', 'w'),), (), n2))),)
            out.append(('api:%s/%s/%d' % (n1, n2, akeys.index(ak)), forest, 'api'))
    return out


H5 = ('<div id="d" class="c"><form id="f"><input id="i1" type="text"><input id="i2" type="checkbox" checked><input id="i3" type="submit" disabled>'
      '<textarea id="t" readonly></textarea><input id="i4" type="number" min="1" value="0"></form><svg id="s" class="c"><a id="sa" xlink:href="x" href="y" class="c"><circle id="ci" k="1"/></a></svg>'
      '<math id="m"><mi id="mi" class="c" k="2">x</mi></math><a id="ha" href="z" k="3">t</a><p id="p" class="c">u</p></div>')


def selector_forms(tier):
    forms = []
    for name in ('e', 'f'):
        for ns in (None, '*', '', 'x', 'y', 'p'):
            forms.append(S.cp((ns, name)))
    for ns in (None, '*', '', 'x', 'y'):
        forms.append(S.cp((ns, '*')))
    for ns in (None, '', '*', 'x', 'y', 'p'):
        forms.append(S.cp(None, ('attr', ns, 'k', None, None, None)))
        forms.append(S.cp(None, ('attr', ns, 'k', '=', 'vp', None)))
    forms.append(S.cp(None, ('class', 'c')))           # implied universal
    forms.append(S.cp(None, ('attr', 'x', 'k', '=', 'vq', None)))
    forms.append(S.cp(None, ('attr', '*', 'k', '^=', 'v', None)))
    out = []
    for c in forms:
        out.append((S.cx(c),))
        out.append((S.cx(S.cp(None, ('fn', 'not', (S.cx(c),)))),))
        out.append((S.cx(S.cp(None, ('fn', 'is', (S.cx(c),)))),))
        out.append((S.cx(S.cp(('*', '*'), ('fn', 'is', (S.cx(c), S.cx(S.cp(None, ('class', 'zz'))))))),))
    # namespaced type combined with an HTML-only pseudo-class, and chains
    for ns in ('x', '*', None, 'p'):
        for pc in ('checked', 'link', 'disabled'):
            out.append((S.cx(S.cp((ns, 'e'), ('fn', 'not', (S.cx(S.cp(None, ('pc', pc))),)))),))
            out.append((S.cx(S.cp((ns, '*'), ('fn', 'not', (S.cx(S.cp(None, ('pc', pc))),))), '>', S.cp(('x', 'f'))),))
        out.append((S.cx(S.cp((ns, 'e')), '>', S.cp(('x', 'f'))),))
        out.append((S.cx(S.cp((ns, 'e')), '~', S.cp((ns, 'e'), ('attr', None, 'k', None, None, None))),))
    cls, hk, zz = S.cx(S.cp(None, ('class', 'c'))), S.cx(S.cp(None, ('attr', None, 'k', None, None, None))), S.cx(S.cp(None, ('class', 'zz')))
    for outer in (('x', 'e'), ('*', '*'), ('x', '*'), (None, 'e')):
        for L in ((cls, hk), (hk, cls), (zz, cls), (cls, zz), (cls, hk, zz)):
            out.append((S.cx(S.cp(outer, ('fn', 'not', L))),))
            out.append((S.cx(S.cp(outer, ('fn', 'is', L))),))
            out.append((S.cx(S.cp(outer, ('nth', 'child', 1, 0, L, None))),))
            out.append((S.cx(S.cp(outer, ('has', tuple(('>', x) for x in L)))),))
    tl = [S.cp(None, ('attr', None, 'k', None, None, None)), S.cp(None, ('class', 'c')), S.cp(None, ('attr', 'x', 'k', None, None, None)),
          S.cp(None, ('fn', 'not', (S.cx(S.cp(('x', 'e'))),)))]
    typed = [S.cp(('x', 'e')), S.cp((None, 'f')), S.cp(('*', 'e')), S.cp((None, 'zz'))]
    for a in tl:
        for b in typed + tl[:2]:
            if a is not b:
                out.append((S.cx(a), S.cx(b)))
                out.append((S.cx(b), S.cx(a)))
        out.append((S.cx(a), S.cx(tl[1]), S.cx(typed[0])))
    if tier != 'quick':
        for a, b in itertools.combinations(forms, 2):
            if a[1] is not None and b[1] is None:
                out.append((S.cx(S.cp(a[1], b[2][0])),))
            out.append((S.cx(a), S.cx(b)))
    return out


def h5_selectors():
    out = []
    for name in ('a', 'circle', 'mi', 'p', '*'):
        for ns in (None, '*', '', 'svg', 'x', 'p', 'zz'):
            out.append((S.cx(S.cp((ns, name))),))
            out.append((S.cx(S.cp(None, ('fn', 'not', (S.cx(S.cp((ns, name))),)))),))
    for ns in (None, '', '*', 'xlink', 'svg', 'zz'):
        out.append((S.cx(S.cp(None, ('attr', ns, 'href', None, None, None))),))
        out.append((S.cx(S.cp(None, ('attr', ns, 'href', '=', 'x', None))),))
        out.append((S.cx(S.cp(None, ('attr', ns, 'k', None, None, None))),))
    out.append((S.cx(S.cp(None, ('class', 'c'))),))
    out.append((S.cx(S.cp(('svg', '*'), ('class', 'c'))),))
    out.append((S.cx(S.cp(('svg', 'a')), '>', S.cp((None, 'circle'))),))
    return out


PCS = [':enabled', ':disabled', ':default', ':read-only', ':read-write', ':checked', ':required', ':optional', ':any-link', ':in-range', ':out-of-range',
       ':placeholder-shown', ':dir(ltr)', ':indeterminate', ':root', ':lang(en)']


def run_h5_laws(sv, docs, res):
    """HTML pseudo-classes are evaluated through selectors of the library's own, with a namespace map of their own.  Next to the caller's prefixes -
    on the same compound, earlier in a list, across a combinator - the caller's map must be in force before, during and after:
    T:PC = T intersected with :PC;  ':PC, U' = :PC united with U;  ':PC ~ T' = the T elements with an earlier :PC sibling."""
    for dname, src, soup in docs:
        els = T.elements(soup)
        pos = {id(e): k for k, e in enumerate(els)}
        for mname, m in HMAPS.items():
            if not m:
                continue

            def sel(text):
                return [pos[id(e)] for e in sv.select(text, soup, namespaces=m)]
            for pc in PCS:
                try:
                    base = sel(pc)
                    checks = []
                    for t in ('x|input', 'x|*', 'svg|*', '*|circle', 'h|p'):
                        checks.append((t + pc, sorted(set(base) & set(sel(t)))))
                    for u in ('svg|circle', 'zz|p', 'html|p', 'x|p', 'svg|a > *'):
                        checks.append((pc + ', ' + u, sorted(set(base) | set(sel(u)))))
                        checks.append((u + ', ' + pc, sorted(set(base) | set(sel(u)))))
                    for t in ('x|input', 'svg|*', 'x|*'):
                        tt = set(sel(t))
                        want = sorted(k for k in tt if any(pos[id(sib)] in base for sib in els[k].find_previous_siblings() if id(sib) in pos))
                        checks.append((pc + ' ~ ' + t, want))
                    for text, want in checks:
                        got = sel(text)
                        res.evaluations += 1
                        if want:
                            res.nontrivial += 1
                        if got != want:
                            res.fail({'src': src, 'map': mname, 'h5': True, 'law': True, 'text': text, 'pc': pc, 'selector': ()},
                                     {'kind': 'law', 'direction': 'missing' if set(got) < set(want) else 'extra' if set(got) > set(want) else 'different', 'map': mname,
                                      'features': 'html-pseudo-class-next-to-caller-prefix', 'doc': 'h5'},
                                     f'[{dname}, map {mname}] select({text!r}) gives elements {got}; composed from its parts ({pc!r} and the rest, each selected alone) it is {want}')
                        else:
                            res.outcome('law-holds')
                except Exception as e:
                    res.fail({'src': src, 'map': mname, 'h5': True, 'law': True, 'text': pc, 'pc': pc, 'selector': ()},
                             {'kind': 'raise', 'direction': type(e).__name__, 'map': mname, 'features': 'html-pseudo-class-next-to-caller-prefix', 'doc': 'h5'}, repr(e))


CUSTOM = {':--k': '[k]', ':--c': '.c, [k=vp]', ':--t': 'e > *', ':--n': ':not(.c)'}


def run_custom_laws(sv, tier, res):
    """A custom alias means what its definition means inside :is(): under every caller map (default namespace included) and behind every typed or
    untyped compound, `T:--x` = `T:is(definition)` and `T:not(:--x)` = `T:not(definition)`.  (The implied universal of a top-level selector does not
    apply inside an alias.)"""
    docs = built('quick')
    if tier == 'quick':
        docs = docs[::7]
    for name, src, soup in docs:
        els = T.elements(soup)
        pos = {id(e): k for k, e in enumerate(els)}
        for mname, m in MAPS.items():
            def sel(text):
                try:
                    return [pos[id(e)] for e in sv.select(text, soup, namespaces=m, custom=CUSTOM)]
                except Exception as e:
                    return 'raise:' + type(e).__name__
            for t in ('', '*|*', '*|e', 'e', 'x|e', '|e', 'x|*', 'f'):
                for alias, body in CUSTOM.items():
                    for form in ('{t}{a}', '{t}:not({a})', '{t}:is({a}, zz)', 'r > {t}{a}'):
                        lhs, rhs = form.format(t=t, a=alias), form.format(t=t, a=':is(' + body + ')' if form == '{t}{a}' or form.endswith('{a}') else body)
                        got, want = sel(lhs), sel(rhs)
                        res.evaluations += 1
                        if want and want != 'raise:SelectorSyntaxError':
                            res.nontrivial += 1
                        if got != want:
                            res.fail({'src': src, 'map': mname, 'h5': False, 'custom_law': True, 'text': lhs, 'rhs': rhs, 'selector': ()},
                                     {'kind': 'law', 'direction': 'alias-differs-from-definition', 'map': mname, 'features': 'custom-alias' + ('+typed' if t else ''), 'doc': src[0]},
                                     f'[{name}, map {mname}] select({lhs!r}, custom=...) gives {got}; with the definition written out, {rhs!r}, it is {want}')
                        else:
                            res.outcome('law-holds')


def shards(tier, seed):
    n = 32 if tier == 'quick' else 96
    return [('xml', tier, i, n) for i in range(n)] + [('h5', tier, 0, 1), ('custom', tier, 0, 1)]


_DOCS = {}


def built(tier):
    import bs4
    if tier in _DOCS:
        return _DOCS[tier]
    out = []
    with warnings.catch_warnings():
        warnings.simplefilter('ignore')
        for name, m, kind in xml_documents(tier):
            out.append((name, ('xml', m), bs4.BeautifulSoup(m, 'xml')))
    for name, forest, kind in api_documents():
        out.append((name, ('api', forest), T.build_api(forest, True)))
    _DOCS[tier] = out
    return out


def feature(lst):
    return '+'.join(sorted(a for a in _sel.atoms_of(lst) if a.startswith(('tns', 'ans', ':')) or a in ('type*', 'class')))


def run_shard(desc):
    from .. import common
    sv = common.bind()
    warnings.simplefilter('ignore')
    res = shard.Result()
    what, tier, i, n = desc
    if what == 'custom':
        run_custom_laws(sv, tier, res)
        return res
    if what == 'h5':
        import bs4
        docs = [('html5lib', bs4.BeautifulSoup(H5, 'html5lib')),
                ('xhtml', bs4.BeautifulSoup('<html xmlns="%s"><body>%s</body></html>' % (XHTML, H5.replace('<svg ', '<svg xmlns="%s" xmlns:xlink="%s" ' % (SVG, XLINK)).replace('<math ', '<math xmlns="%s" ' % MATHML)), 'xml'))]
        maps, sels = HMAPS, h5_selectors()
        docs = [(n_, ('h5', n_), s_) for n_, s_ in docs]
        run_h5_laws(sv, docs, res)
    else:
        docs = built(tier)
        maps, sels = MAPS, selector_forms(tier)
        if i == 0:
            res.count('documents', len(docs))
            res.count('selectors', len(sels))
    for si in range(i, len(sels), n):
        lst = sels[si]
        text = S.render(lst)
        sv.purge()
        fails = 0
        for name, src, soup in docs:
            for mname, m in maps.items():
                r = _sel.run_case(sv, soup, lst, namespaces=m, text=text)
                res.evaluations += 1
                st = r['status']
                if st == 'ok':
                    res.outcome('agree')
                    if r['want']:
                        res.nontrivial += 1
                elif st == 'unspecified':
                    res.unspecified += 1
                else:
                    res.outcome(st)
                    fails += 1
                    if fails <= 3:
                        res.fail({'src': src, 'map': mname, 'h5': what == 'h5', 'selector': lst, 'text': text},
                                 {'kind': st, 'direction': r.get('direction', r.get('exc', '')), 'map': mname, 'features': feature(lst),
                                  'doc': 'h5' if what == 'h5' else src[0]},
                                 f'[{name}, map {mname}] ' + r.get('detail', ''))
                    else:
                        res.failure_count += 1
        if si % 37 == 0:
            res.sample({'selector': text, 'maps': list(maps), 'document': docs[len(docs) // 2][0]})
    return res


def replay(case):
    from .. import common
    import bs4
    sv = common.bind()
    warnings.simplefilter('ignore')
    lst = _sel.tup(case['selector'])
    kind, payload = case['src']
    if kind == 'xml':
        soup = bs4.BeautifulSoup(payload, 'xml')
    elif kind == 'api':
        soup = T.build_api(_sel.tup(payload), True)
    elif payload == 'html5lib':
        soup = bs4.BeautifulSoup(H5, 'html5lib')
    else:
        soup = bs4.BeautifulSoup('<html xmlns="%s"><body>%s</body></html>' % (XHTML, H5.replace('<svg ', '<svg xmlns="%s" xmlns:xlink="%s" ' % (SVG, XLINK)).replace('<math ', '<math xmlns="%s" ' % MATHML)), 'xml')
    if case.get('custom_law'):
        m = MAPS[case['map']]
        pos = {id(e): k for k, e in enumerate(T.elements(soup))}
        out = []
        for text in (case['text'], case['rhs']):
            try:
                out.append([pos[id(e)] for e in sv.select(text, soup, namespaces=m, custom=CUSTOM)])
            except Exception as e:
                out.append('raise:' + type(e).__name__)
        return None if out[0] == out[1] else ({'kind': 'law', 'direction': 'alias-differs-from-definition'}, f'{out[0]} vs {out[1]}')
    if case.get('law'):
        r = shard.Result()
        run_h5_laws(sv, [(payload, case['src'], soup)], r)
        for f_ in r.failures:
            if f_['case']['text'] == case['text'] and f_['case']['map'] == case['map']:
                return f_['sig'], f_['detail']
        return None
    m = (HMAPS if case['h5'] else MAPS)[case['map']]
    r = _sel.run_case(sv, soup, lst, namespaces=m, text=case['text'])
    if r['status'] in ('ok', 'unspecified'):
        return None
    return {'kind': r['status'], 'direction': r.get('direction', '')}, r.get('detail', '')


def check(tier, seed):
    res, info = shard.run(__name__, shards(tier, seed), order_seed=seed)
    cov = {
        'rule': ('every (document, caller map, selector form) triple, soupsieve.select against the URI-comparison reference; non-trivial = the '
                 'reference selects at least one element; triples distinct by construction'),
        'exhaustive': not info['cap_hit'], 'maps': list(MAPS), 'html5_maps': list(HMAPS),
    }
    return {'result': res, 'coverage': cov, 'info': info,
            'assumptions': ['an attribute that bs4 stores with a namespace but without a prefix (attribute of an element in a default-declared namespace) '
                            'is not asserted for [k]/[|k] (bs4 representation quirk)', 'html.parser/lxml HTML trees carry no namespaces and are out of scope']}
