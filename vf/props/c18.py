"""C18 — date, time and number values are validated and ordered as HTML prescribes.

(1) Through Inputs.parse_value (the seam :in-range/:out-of-range use): every year of the stated ranges (one full 400-year
    Gregorian period per digit length in thorough) x weeks 00..54, x months 00..13 x days 00..32, in three spellings
    (4-digit padding, unpadded, one extra zero); hours 00..24 x minutes 00..60; boundary date x time products; number shapes;
    every valid string again with a trailing newline / leading / trailing space.  Oracle: vf/ref/calendar.py - valid exactly
    when HTML says so, parsed value equal to the calendar tuple (so ordering is calendar/numeric), never raises.
(2) Through the public API on built <input> elements: every (min, max, value) triple over 7 values per type for the 7 range
    types (valid low/mid/high, invalid, empty, absent, another valid) including min > max; and an end-to-end replay of every
    week-53 / 29-February / boundary string.  Oracle: in-range / out-of-range / neither from the reference.
"""
from __future__ import annotations
import itertools
import warnings
from ..engine import shard
from ..gen import trees as T
from ..ref import calendar as C

ID = 'C18'
LEVEL = 'exploration'


def year_ranges(tier):
    if tier == 'quick':
        return [(1, 5001), (9900, 10101), (100000, 100020)]
    return [(1, 10400), (100000, 100400)]


def spell(y):
    s = str(y)
    out = [s.zfill(4)]
    if y < 1000:
        out.append(s)                 # too few digits: must be rejected, not crash
    if y <= 400:
        out.append('0' + s.zfill(4))
    return out


def shards(tier, seed):
    out = []
    step = 50 if tier == 'quick' else 100
    for lo, hi in year_ranges(tier):
        for a in range(lo, hi, step):
            out.append(('years', a, min(a + step, hi)))
    out += [('small', 0, 0), ('triples', 0, 0), ('e2e', 0, 0), ('seq', 0, 0), ('variants', 0, 0)]
    return out


def seam(sv):
    I = getattr(sv.css_match, 'Inputs', None)
    if I is not None and hasattr(I, 'parse_value'):
        return I.parse_value
    return None


def check_string(pv, itype, s, res):
    want = C.parse(itype, s)
    try:
        got = pv(itype, s)
    except Exception as e:
        return {'kind': 'raise', 'type': itype, 'exc': type(e).__name__}, f'parse_value({itype!r}, {s[:40]!r}) raised {e!r}'
    res.evaluations += 1
    if want is not None:
        res.nontrivial += 1
    if (got is None) != (want is None):
        sig = {'kind': 'validity', 'type': itype, 'direction': 'accepted-invalid' if want is None else 'rejected-valid'}
        if itype == 'week':
            try:
                y, w = s.split('-W')
                sig['week'] = int(w)
                sig['dec31_in_week1'] = C.dec31_in_week1(int(y)) if y.isdigit() and len(y) >= 4 and int(y) >= 1 else None
            except Exception:
                pass
        sig['shape'] = 'clean' if s == s.strip() and '\n' not in s else 'whitespace'
        return sig, f'{itype} string {s[:40]!r}: soupsieve says {"valid" if got is not None else "invalid"}, HTML says {"valid" if want is not None else "invalid"}'
    if want is not None and tuple(got) != tuple(want):
        return {'kind': 'value', 'type': itype}, f'{itype} string {s!r} parsed as {got!r}, calendar value {want!r}'
    return None


def run_years(pv, lo, hi, res):
    for y in range(lo, hi):
        for ys in spell(y):
            strings = [('week', '%s-W%02d' % (ys, w)) for w in range(0, 55)]
            strings += [('month', '%s-%02d' % (ys, m)) for m in range(0, 14)]
            strings += [('date', '%s-%02d-%02d' % (ys, m, d)) for m in range(0, 14) for d in range(0, 33)]
            strings += [('datetime-local', '%s-02-%02dT%s' % (ys, d, t)) for d in (28, 29, 30) for t in ('00:00', '23:59', '24:00')]
            for itype, s in strings:
                f = check_string(pv, itype, s, res)
                if f:
                    res.outcome('disagree:' + f[0]['kind'])
                    if res.failure_count < 30 or f[0].get('week') != 53:
                        res.fail({'layer': 'string', 'type': itype, 's': s}, f[0], f[1])
                    else:
                        res.failure_count += 1
                else:
                    res.outcome('agree')
        if y % 97 == 0:
            res.sample({'year': y, 'weeks_in_year': C.weeks_in_year(y), 'leap': C.leap(y)})


NUMBERS = ['0', '-0', '1', '1.5', '.5', '-.5', '1.', '1.50', '007', '1e3', '+1', '--1', '', '-', '.', '1.5.2', '1,5', '٣', ' 1', '1 ', '1\n', '0x10', 'NaN', 'Infinity',
           '-1.5', '9' * 30, '0.' + '0' * 30 + '1']


def run_small(pv, res):
    for h in range(0, 25):
        for m in range(0, 61):
            for s in ('%02d:%02d' % (h, m), '%d:%02d' % (h, m), '%02d:%02d:00' % (h, m)):
                f = check_string(pv, 'time', s, res)
                if f:
                    res.fail({'layer': 'string', 'type': 'time', 's': s}, f[0], f[1])
    for s in NUMBERS + ['１２', '1٫5', '1２', '²', '1\u200b']:
        for t in ('number', 'range'):
            f = check_string(pv, t, s, res)
            if f:
                res.fail({'layer': 'string', 'type': t, 's': s}, f[0], f[1])
    for t, s in (('date', '２０２０-01-01'), ('date', '2020-0１-01'), ('month', '2020-١٢'), ('week', '2020-W１0'), ('time', '１0:00'), ('time', '10:٣0'),
                 ('datetime-local', '2020-01-01T１0:00'), ('date', '2020\u201001\u201001'), ('week', '2020-w10'), ('datetime-local', '2020-01-01t10:00')):
        f = check_string(pv, t, s, res)
        if f:
            res.fail({'layer': 'string', 'type': t, 's': s}, f[0], f[1])
    dates = ['2020-02-29', '2019-02-29', '2000-02-29', '1900-02-29', '0001-01-01', '0000-01-01', '9999-12-31', '10000-01-01', '2020-04-31', '2020-12-31']
    times = ['00:00', '23:59', '24:00', '12:60', '1:00', '12:00:00']
    for d in dates:
        for t in times:
            for sep in ('T', ' ', 't'):
                s = d + sep + t
                f = check_string(pv, 'datetime-local', s, res)
                if f:
                    res.fail({'layer': 'string', 'type': 'datetime-local', 's': s}, f[0], f[1])
    valid = {'date': ['2020-02-29', '0001-01-01'], 'month': ['2020-02', '10000-12'], 'week': ['2020-W53', '2021-W01'], 'time': ['10:30', '00:00'],
             'datetime-local': ['2020-02-29T10:30'], 'number': ['1', '-.5', '1.5'], 'range': ['1']}
    for t, ss in valid.items():
        for s in ss:
            for v in (s, s + '\n', ' ' + s, s + ' ', s + '\r', '\t' + s, s + '\x00', s.lower() if s.lower() != s else s + 'x', s + '\n\n'):
                f = check_string(pv, t, v, res)
                if f:
                    res.fail({'layer': 'string', 'type': t, 's': v}, f[0], f[1])
    # values of one type offered to another type are invalid
    for t1, ss in valid.items():
        for t2 in valid:
            if t1 != t2 and not ({t1, t2} <= {'number', 'range'}):
                f = check_string(pv, t2, ss[0], res)
                if f:
                    res.fail({'layer': 'string', 'type': t2, 's': ss[0]}, f[0], f[1])


MENU = {
    'date': ['2020-01-10', '2020-02-29', '2021-12-31', '2020-02-30', '', None, '10000-01-01'],
    'month': ['2020-01', '2020-06', '2021-12', '2020-13', '', None, '0999-12'],
    'week': ['2020-W01', '2020-W30', '2021-W52', '2021-W54', '', None, '2020-W53'],
    'time': ['02:00', '12:30', '22:00', '24:00', '', None, '00:00'],
    'datetime-local': ['2020-01-10T00:00', '2020-01-10T12:00', '2021-01-01T00:00', '2020-01-10 12:00', '', None, '2020-02-29T23:59'],
    'number': ['-1.5', '0', '10', '1e3', '', None, '.5'],
    'range': ['-1.5', '0', '10', 'x', '', None, '5'],
}


def run_triples(sv, res):
    import bs4
    io = sv.compile(':in-range')
    oo = sv.compile(':out-of-range')
    for t, menu in MENU.items():
        specs = []
        for mn, mx, v in itertools.product(menu, repeat=3):
            attrs = [('type', t)]
            if mn is not None:
                attrs.append(('min', mn))
            if mx is not None:
                attrs.append(('max', mx))
            if v is not None:
                attrs.append(('value', v))
            specs.append((mn, mx, v, ('e', 'input', tuple(attrs), ())))
        soup = T.build_api((('e', 'form', (), tuple(s[3] for s in specs)),))
        els = T.elements(soup)[1:]
        try:
            ins = {id(e) for e in io.select(soup)}
            outs = {id(e) for e in oo.select(soup)}
        except Exception as e:
            res.fail({'layer': 'triple', 'type': t, 'min': None, 'max': None, 'value': None}, {'kind': 'raise', 'type': t, 'exc': type(e).__name__},
                     f':in-range/:out-of-range on type={t} inputs raised {e!r}')
            continue
        for (mn, mx, v, spec), el in zip(specs, els):
            pmn, pmx, pv_ = C.parse(t, mn), C.parse(t, mx), C.parse(t, v)
            if pmn is None and pmx is None:
                want = 'neither'
            else:
                want = 'out' if C.out_of_range(t, pmn, pmx, pv_) else 'in'
            got = 'in' if id(el) in ins else ('out' if id(el) in outs else 'neither')
            if id(el) in ins and id(el) in outs:
                got = 'both'
            res.evaluations += 1
            if want != 'neither':
                res.nontrivial += 1
            if got != want:
                rev = pmn is not None and pmx is not None and pmn > pmx
                sig = {'kind': 'range', 'type': t, 'want': want, 'got': got, 'reversed_bounds': rev, 'value_valid': pv_ is not None}
                if t == 'week' and any(x and x.endswith('W53') for x in (mn, mx, v)):
                    sig = {'kind': 'validity', 'type': 'week', 'direction': 'accepted-invalid', 'week': 53, 'dec31_in_week1': True} \
                        if all(C.parse('week', x) is not None or not (x and x.endswith('W53')) or C.dec31_in_week1(int(x[:4])) for x in (mn, mx, v) if x) else sig
                res.fail({'layer': 'triple', 'type': t, 'min': mn, 'max': mx, 'value': v}, sig,
                         f'<input type={t} min={mn!r} max={mx!r} value={v!r}>: soupsieve {got}-of-range, HTML {want}')
            else:
                res.outcome('range-' + want)


def run_variants(sv, res):
    """The same verdicts whatever surrounds the three attributes: documents that are XHTML (attribute names are case-sensitive there, so MIN / MAX /
    VALUE / TYPE are other attributes - decoys holding values that would flip the answer), real parsers, and inputs that are readonly, disabled or
    inside a disabled fieldset (the property ties :in-range / :out-of-range to the type and the bounds only)."""
    import bs4
    XH = 'http://www.w3.org/1999/xhtml'
    io, oo = sv.compile(':in-range'), sv.compile(':out-of-range')

    def verdict(t, mn, mx, v):
        pmn, pmx, pv_ = C.parse(t, mn), C.parse(t, mx), C.parse(t, v)
        if pmn is None and pmx is None:
            return 'neither'
        return 'out' if C.out_of_range(t, pmn, pmx, pv_) else 'in'
    for t, menu in MENU.items():
        sub = [menu[0], menu[2], menu[3], None]
        cases = [(mn, mx, v) for mn, mx, v in itertools.product(sub, repeat=3)]
        far = menu[2]
        variants = []
        # XHTML built through the API, with decoys
        specs = []
        for mn, mx, v in cases:
            a = [('type', t)] + [(k, x) for k, x in (('min', mn), ('max', mx), ('value', v)) if x is not None]
            a += [(k, far) for k, x in (('MIN', mn), ('MAX', mx), ('VALUE', v)) if x is None] + [('TYPE', 'text'), ('Value', menu[0])]
            specs.append(('e', 'input', tuple(a), (), (None, XH)))
        variants.append(('xhtml-with-other-case-decoys', T.build_api((('e', 'html', (), (('e', 'body', (), (('e', 'form', (), tuple(specs), (None, XH)),), (None, XH)),), (None, XH)),), True)))
        # plain inputs through real parsers, and flagged inputs
        def markup(extra='', wrap=('', '')):
            return '<form>' + wrap[0] + ''.join('<input type="%s"%s%s/>' % (t, ''.join(' %s="%s"' % (k, x) for k, x in (('min', mn), ('max', mx), ('value', v)) if x is not None), extra)
                                                  for mn, mx, v in cases) + wrap[1] + '</form>'
        with warnings.catch_warnings():
            warnings.simplefilter('ignore')
            variants.append(('html5lib', bs4.BeautifulSoup(markup(), 'html5lib')))
            variants.append(('lxml', bs4.BeautifulSoup(markup(), 'lxml')))
            variants.append(('xhtml-parsed', bs4.BeautifulSoup('<html xmlns="%s"><body>%s</body></html>' % (XH, markup(' VALUE="%s" MAX="%s"' % (far, menu[0]))), 'xml')))
            variants.append(('readonly', bs4.BeautifulSoup(markup(' readonly=""'), 'html.parser')))
            variants.append(('disabled', bs4.BeautifulSoup(markup(' disabled=""'), 'html.parser')))
            variants.append(('in-disabled-fieldset', bs4.BeautifulSoup(markup('', ('<fieldset disabled=""><legend>l</legend>', '</fieldset>')), 'html.parser')))
        for vname, soup in variants:
            els = [e for e in T.elements(soup) if e.name == 'input']
            try:
                ins, outs = {id(e) for e in io.select(soup)}, {id(e) for e in oo.select(soup)}
            except Exception as e:
                res.fail({'layer': 'variant', 'type': t, 'variant': vname, 'min': None, 'max': None, 'value': None}, {'kind': 'raise', 'type': t, 'exc': type(e).__name__}, repr(e))
                continue
            for (mn, mx, v), el in zip(cases, els):
                want = verdict(t, mn, mx, v)
                got = 'both' if id(el) in ins and id(el) in outs else 'in' if id(el) in ins else 'out' if id(el) in outs else 'neither'
                res.evaluations += 1
                if want != 'neither':
                    res.nontrivial += 1
                if got != want:
                    res.fail({'layer': 'variant', 'type': t, 'variant': vname, 'min': mn, 'max': mx, 'value': v},
                             {'kind': 'range-in-context', 'type': t, 'want': want, 'got': got, 'context': vname},
                             f'[{vname}] <input type={t} min={mn!r} max={mx!r} value={v!r}>: soupsieve {got}-of-range, HTML {want}')
                else:
                    res.outcome('variant-agrees')


def run_e2e(sv, res):
    """The seam and the public route agree where it matters: week 53, 29 February, year boundaries."""
    strings = []
    for y in list(range(1990, 2031)) + [1, 4, 100, 400, 999, 1000, 9999, 10000, 10004, 10100, 12000, 100000, 100004]:
        ys = str(y).zfill(4)
        strings += [('week', '%s-W%02d' % (ys, w)) for w in (0, 1, 52, 53, 54)]
        strings += [('date', '%s-02-%02d' % (ys, d)) for d in (28, 29, 30)]
        strings += [('month', '%s-%02d' % (ys, m)) for m in (0, 1, 12, 13)]
        strings += [('datetime-local', '%s-02-29T12:00' % ys)]
    io = sv.compile(':in-range')
    by_type = {}
    for t, s in strings:
        by_type.setdefault(t, []).append(s)
    jobs = [(t, t, ss) for t, ss in by_type.items()]
    # the type keyword is ASCII case-insensitive in HTML: the same strings under other spellings of the type
    jobs += [(t, sp, ss[::4]) for t, ss in by_type.items() for sp in (t.upper(), t.capitalize(), t[:-1] + t[-1].upper())]
    for t, spelled, ss in jobs:
        soup = T.build_api((('e', 'form', (), tuple(('e', 'input', (('type', spelled), ('min', s), ('value', s)), ()) for s in ss)),))
        els = T.elements(soup)[1:]
        try:
            ins = {id(e) for e in io.select(soup)}
        except Exception as e:
            res.fail({'layer': 'e2e', 'type': t, 's': '', 'spelled': spelled}, {'kind': 'raise', 'type': t, 'exc': type(e).__name__}, f':in-range raised {e!r}')
            continue
        for s, el in zip(ss, els):
            want = C.parse(t, s) is not None
            got = id(el) in ins
            res.evaluations += 1
            if want:
                res.nontrivial += 1
            if got != want:
                sig = {'kind': 'validity', 'type': t, 'direction': 'accepted-invalid' if got else 'rejected-valid', 'shape': 'clean'}
                if spelled != t:
                    sig['type_spelled_in_other_case'] = True
                if t == 'week':
                    sig['week'] = int(s.split('-W')[1])
                    sig['dec31_in_week1'] = C.dec31_in_week1(int(s.split('-W')[0]))
                res.fail({'layer': 'e2e', 'type': t, 's': s, 'spelled': spelled}, sig,
                         f'<input type={spelled} min={s!r} value={s!r}> is {"" if got else "not "}:in-range; the string is {"valid" if want else "invalid"}')
            else:
                res.outcome('e2e-agree')


SEQ_STRINGS = ['2004-08', '2004-08-15', '2004-W08', '08:15', '2004-08-15T08:15', '5', '2004', '0008-08', '10000-01', '2004-13', '24:00', 'x', '', '2004-02-30']


def run_sequences(pv, res):
    """Every ordered pair of calls (type1, s1), (type2, s2) over 7 types x 14 strings: the second result must be the stand-alone result
    (validity must not leak from one input type to another, nor from one string to the next)."""
    types = list(C.RANGE_TYPES)
    alpha = [(t, s) for t in types for s in SEQ_STRINGS]
    for (t1, s1) in alpha:
        for (t2, s2) in alpha:
            if s1 != s2 and t1 != t2:
                continue            # only pairs that share the string or the type can interfere through a memo
            try:
                pv(t1, s1)
                got = pv(t2, s2)
            except Exception as e:
                res.fail({'layer': 'seq', 'calls': [[t1, s1], [t2, s2]]}, {'kind': 'raise', 'type': t2, 'exc': type(e).__name__}, f'{e!r}')
                continue
            want = C.parse(t2, s2)
            res.evaluations += 1
            ok = (got is None) == (want is None) and (want is None or tuple(got) == tuple(want))
            if not ok:
                res.fail({'layer': 'seq', 'calls': [[t1, s1], [t2, s2]]},
                         {'kind': 'history-dependent-validity', 'same_string': s1 == s2, 'same_type': t1 == t2},
                         f'parse_value({t1!r}, {s1!r}) then parse_value({t2!r}, {s2!r}) = {got!r}; alone it must be {want!r}')
            else:
                res.outcome('sequence-independent')
                if want is not None:
                    res.nontrivial += 1


def run_shard(desc):
    from .. import common
    sv = common.bind()
    warnings.simplefilter('ignore')
    res = shard.Result()
    pv = seam(sv)
    if desc[0] == 'seq':
        if pv is not None:
            run_sequences(pv, res)
        return res
    if desc[0] in ('years', 'small'):
        if pv is None:
            res.extra['seam_missing'] = 'Inputs.parse_value not found: string layers skipped, public-API layers still run'
            return res
        if desc[0] == 'years':
            run_years(pv, desc[1], desc[2], res)
        else:
            run_small(pv, res)
    elif desc[0] == 'triples':
        run_triples(sv, res)
    elif desc[0] == 'variants':
        run_variants(sv, res)
    else:
        run_e2e(sv, res)
    return res


def replay(case):
    from .. import common
    sv = common.bind()
    res = shard.Result()
    if case['layer'] == 'string':
        return check_string(seam(sv), case['type'], case['s'], res)
    if case['layer'] == 'seq':
        pv = seam(sv)
        (t1, s1), (t2, s2) = case['calls']
        pv(t1, s1)
        got, want = pv(t2, s2), C.parse(t2, s2)
        ok = (got is None) == (want is None) and (want is None or tuple(got) == tuple(want))
        return None if ok else ({'kind': 'history-dependent-validity'}, f'{got!r} vs {want!r}')
    if case['layer'] == 'variant':
        r = shard.Result()
        run_variants(sv, r)
        for f_ in r.failures:
            if all(f_['case'].get(k) == case.get(k) for k in ('type', 'variant', 'min', 'max', 'value')):
                return f_['sig'], f_['detail']
        return None
    if case['layer'] == 'triple':
        t = case['type']
        attrs = [('type', t)] + [(k, case[k]) for k in ('min', 'max', 'value') if case[k] is not None]
        soup = T.build_api((('e', 'form', (), (('e', 'input', tuple(attrs), ()),)),))
        el = T.elements(soup)[1]
        pmn, pmx, pv_ = C.parse(t, case['min']), C.parse(t, case['max']), C.parse(t, case['value'])
        want = 'neither' if pmn is None and pmx is None else ('out' if C.out_of_range(t, pmn, pmx, pv_) else 'in')
        try:
            i, o = sv.match(':in-range', el), sv.match(':out-of-range', el)
        except Exception as e:
            return {'kind': 'raise', 'type': t, 'exc': type(e).__name__}, repr(e)
        got = 'both' if i and o else ('in' if i else ('out' if o else 'neither'))
        if got == want:
            return None
        return {'kind': 'range', 'type': t, 'want': want, 'got': got}, f'{got} vs {want}'
    t, s = case['type'], case['s']
    soup = T.build_api((('e', 'form', (), (('e', 'input', (('type', case.get('spelled', t)), ('min', s), ('value', s)), ()),)),))
    got = sv.match(':in-range', T.elements(soup)[1])
    want = C.parse(t, s) is not None
    return None if got == want else ({'kind': 'validity', 'type': t}, f'{got} vs {want}')


def check(tier, seed):
    res, info = shard.run(__name__, shards(tier, seed), order_seed=seed)
    cov = {
        'rule': ('every enumerated string is parsed by the live Inputs.parse_value and by the calendar reference (validity, value, no exception); '
                 'every (min,max,value) triple and every boundary string goes through :in-range/:out-of-range on built inputs; non-trivial = the '
                 'string is valid / the input has a valid bound; strings and triples are distinct by construction'),
        'exhaustive': not info['cap_hit'], 'year_ranges': year_ranges(tier), 'seam_missing': res.extra.get('seam_missing'),
    }
    return {'result': res, 'coverage': cov, 'info': info,
            'assumptions': ['the Gregorian calendar has period 400 years, so one full period per digit length covers every (year mod 400, string shape) class',
                            'seconds, a space separator and exponents are treated as invalid (the library does not claim to support them)']}
