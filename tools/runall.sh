#!/bin/bash
# run every quick (or $1=thorough) check in sequence; print exit status and wall time per property
tier=${1:-quick}
from=${2:-01}
cd "$(dirname "$0")/.."
for i in 01 02 03 04 05 06 07 08 09 10 11 12 13 14 15 16 17 18 19 20; do
  if [ "$i" \< "$from" ]; then continue; fi
  s=$(date +%s.%N)
  out=$(/venv/bin/python -m vf.run C$i --tier $tier 2>&1)
  rc=$?
  e=$(date +%s.%N)
  printf "C%s rc=%s %.1fs %s\n" $i $rc $(echo "$e - $s" | bc) "$(echo "$out" | grep -c '^VIOLATION') violations; $(echo "$out" | grep -c '^KNOWN-FINDING') known"
done
