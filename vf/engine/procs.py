"""E4: run small generated programs in fresh interpreters bound to the tree under test."""
from __future__ import annotations
import os
import shutil
import subprocess
import tempfile
from .. import common


def run_program(source: str, timeout=60, extra_env=None):
    """-> (returncode, stdout, stderr).  cwd is an empty scratch directory, PYTHONPATH is the tree under test only."""
    d = tempfile.mkdtemp(prefix='vf-e4-')
    try:
        env = {'PATH': os.environ.get('PATH', ''), 'PYTHONPATH': common.REPO, 'PYTHONHASHSEED': '0', 'PYTHONDONTWRITEBYTECODE': '1',
               'HOME': d, 'LANG': 'C.UTF-8'}
        if extra_env:
            env.update(extra_env)
        try:
            p = subprocess.run([common.PY, '-W', 'always', '-c', source], cwd=d, env=env, capture_output=True, text=True, timeout=timeout)
            return p.returncode, p.stdout, p.stderr
        except subprocess.TimeoutExpired:
            return -9, '', 'timeout'
    finally:
        shutil.rmtree(d, ignore_errors=True)
