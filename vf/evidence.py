"""Evidence writer (shape of /root/.vp/EVIDENCE.schema.json)."""
from __future__ import annotations
import json
import os
from .common import VERIF, REPO


def jsonable(x, depth=0):
    if depth > 8:
        return repr(x)
    if isinstance(x, (str, int, float, bool)) or x is None:
        return x
    if isinstance(x, bytes):
        return repr(x)
    if isinstance(x, dict):
        return {str(k): jsonable(v, depth + 1) for k, v in x.items()}
    if isinstance(x, (list, tuple, set, frozenset)):
        return [jsonable(v, depth + 1) for v in x]
    return repr(x)


def write(prop, tier, seed, level, coverage, assumptions, wall_s, violations, extra=None):
    ev = {
        'property_id': prop,
        'tier': tier,
        'seed': int(seed),
        'level': level,
        'coverage': jsonable(coverage),
        'assumptions': list(assumptions),
        'wall_s': round(float(wall_s), 3),
        'violations': int(violations),
        'tree_under_test': REPO,
    }
    if extra:
        ev.update(jsonable(extra))
    # evidence/ describes runs against /repo itself; a run pointed at another checkout (VERIF_REPO, used for seeded changes) writes next to it
    d = os.path.join(VERIF, 'evidence' if REPO == '/repo' else 'evidence-other-trees')
    os.makedirs(d, exist_ok=True)
    path = os.path.join(d, prop + '.json')
    tmp = path + '.tmp%d' % os.getpid()
    with open(tmp, 'w') as f:
        json.dump(ev, f, indent=1, ensure_ascii=True, sort_keys=False)
        f.write('\n')
    os.replace(tmp, path)
    return path
