ENGINES = [
    {'name': 'E1 small-scope differential exploration', 'path': 'vf/engine/shard.py', 'serves_properties': [],
     'kind_free_text': 'bounded-exhaustive enumeration of (tree, selector, argument) tuples executed on the real code, each checked against a reference model or a relational oracle; sharded over 16 processes'},
]
NOTES = ('All checks run /venv/bin/python with PYTHONPATH=/repo PYTHONHASHSEED=0 and import the working tree afresh; '
         'VERIF_REPO=<dir> points them at another checkout (used for seeded changes). known_findings.json lists open and fixed defects.')
NOT_APPLICABLE = {}
CHECKS = {
    'C10': {
        'engine': 'E1', 'level': 'exploration', 'design_ref': 'DESIGN.md §3 C10',
        'technique': 'bounded-exhaustive enumeration of strings (all code points x 7 contexts; all words <=3 over 14 chars) on the real escape()/parser, against an independent CSS identifier model and a decoy document',
        'text': 'Every Unicode code point (thorough: all 1 114 112; quick: the whole BMP 0-0xFFFF, every class boundary, astral picks) in seven positions, plus all short words over a 14-character alphabet of troublemakers, is escaped, re-read by an independent CSS-Syntax identifier consumer and by soupsieve, and used to select among decoys. Exhaustive over the stated space; says nothing about longer strings mixing more than three special characters.',
        'note': 'bs4 stores attribute values verbatim for API-built documents; the reference identifier consumer (vf/ref/ident.py) is trusted; surrogates are expected to round-trip unchanged as the property states.',
    },
}

CHECKS.update({
    'C01': {
        'engine': 'E1', 'level': 'exploration', 'design_ref': 'DESIGN.md §3 C01',
        'technique': 'bounded-exhaustive enumeration of (tree, selector, call target) triples executed on the real select(), differential against an independent three-valued reference matcher',
        'text': 'All forests of <=3 (thorough 4, and 5 without interleavings) elements over {a,b} x interleavings of text/comment/CDATA/PI/non-CSS-whitespace nodes x all selector chains of <=3 compounds over type + the eight structural pseudo-classes, :not/:is/:where/:matches/:has lists nested to depth 2, and the attribute/id/class layer (7 operators x i/s flags x value menu), on API-built HTML and XML soups and re-materialised through html.parser, lxml, html5lib and lxml-xml. Exhaustive inside those bounds; nothing is claimed for larger trees, deeper nesting or non-ASCII names.',
        'note': 'trusts vf/ref/css.py (validated against the repository test triples in vf.selftest); :root is not asserted for detached targets or documents with several top-level elements / top-level text.',
    },
    'C02': {
        'engine': 'E1', 'level': 'exploration', 'design_ref': 'DESIGN.md §3 C02',
        'technique': 'bounded-exhaustive enumeration of (A,B) x spellings x pseudo-class x of-S filter x sibling rows/interleavings/contexts on the real matcher, against direct An+B arithmetic',
        'text': 'Every (A,B) in [-3,3]x[-4,4] (thorough [-4,4]x[-7,7] plus +-10, +-100, +-1000) in every spelling the grammar admits, the four pseudo-classes and six of-S filters, against every sibling row of 0..4 (thorough 6) elements with text/comment/CDATA interleavings, as children of an element, of the document object, and as a parentless element; plus keyword equivalences. The verdict depends only on (A, B, position, row length), whose sign/zero/order cases are all realised inside the box.',
        'note': 'trusts solve_nth (closed-form arithmetic) in vf/ref/css.py; rows use element names a/b and class c only.',
    },
    'C03': {
        'engine': 'E1', 'level': 'exploration', 'design_ref': 'DESIGN.md §3 C03',
        'technique': 'bounded-exhaustive enumeration of (tree, call target, selector, entry point, limit, argument combination) on the real API, against the reference relation and coherence equations',
        'text': 'Every tree of <=3 (thorough 4) elements x every call target (document, each element, a parentless copy of each subtree) x a 130-selector pool with every placement of :scope and & x {select, iselect, select_one, match, filter(tag), filter(list), filter(generator), closest} x limits {-2..3, 10}; and every module-level function against compile(pattern, namespaces, flags, custom=custom).method over all combinations of namespaces/flags/custom passed positionally or by keyword.',
        'note': 'filter(iterable) is judged item by item as match(item) judges it; trusts vf/ref/css.py.',
    },
})

ENGINES[:] = [
    {'name': 'E1 small-scope differential exploration', 'path': 'vf/engine/shard.py',
     'serves_properties': ['C01', 'C02', 'C03', 'C05', 'C06', 'C08', 'C09', 'C10', 'C11', 'C12', 'C13', 'C17', 'C18', 'C19', 'C20'],
     'kind_free_text': 'bounded-exhaustive enumeration of (tree, selector, argument) tuples executed on the real code, each checked against an independent reference model (vf/ref) or a relational oracle; sharded over 16 processes with a per-case watchdog'},
    {'name': 'E2 explicit-state search over call histories', 'path': 'vf/engine/lts.py', 'serves_properties': ['C04', 'C15'],
     'kind_free_text': 'breadth-first search whose transitions call the real method (CSSMatch.match, compile, purge); states are histories replayed on fresh real objects and deduplicated by a canonical digest; every transition is checked'},
    {'name': 'E3 stateless schedule exploration', 'path': 'vf/engine/sched.py', 'serves_properties': ['C14'],
     'kind_free_text': 'real threads under sys.settrace with a semaphore baton; every source line (optionally opcode) of the library is a scheduling point; depth-first over choice sequences with iterative preemption bounding; schedules replay deterministically'},
    {'name': 'E4 program enumeration in fresh interpreters', 'path': 'vf/engine/procs.py', 'serves_properties': ['C16'],
     'kind_free_text': 'all import-statement sequences up to a length, each a new process with an empty cwd, followed by a fixed probe'},
    {'name': 'E5 pump-family enumeration', 'path': 'vf/props/c07.py', 'serves_properties': ['C07'],
     'kind_free_text': 'all (prefix, pump, suffix) families over a fragment alphabet driven through every live regex (inventory by object-graph walk), compile() and attribute matching, CPU-time classified on a doubling ladder'},
]


def _c(engine, level, ref, technique, text, note):
    return {'engine': engine, 'level': level, 'design_ref': ref, 'technique': technique, 'text': text, 'note': note}


CHECKS.update({
    'C04': _c('E2', 'model_checking', 'DESIGN.md §3 C04',
              'explicit-state BFS over match() histories on one live CSSMatch object (state = digest of its memo tables and module-level containers), every transition compared with a fresh matcher on a pristine copy and with a tree fingerprint; plus exhaustive public-API call sequences',
              'All histories of match(el) calls (every element, any order, repetition) on one live matcher until no new state digest appears (depth cap 6/10), for 13 documents built around each memo table (meta pragma, lang chains, twin forms, radio groups, iframes, class strings, ranges, parentless subtrees, dir=auto) x 25 (thorough 49) selectors; on each transition: history-free answer, namespace map / iframe flag restored, document fingerprint unchanged. API layer: every sequence of <=2 (thorough 3) calls of select/match/filter/closest against first-call answers on pristine copies.',
              'digest covers vars(matcher) and mutable module/class containers of css_match; documents are API-built; quantifier over documents and selectors is by enumeration of the listed ones.'),
    'C05': _c('E1', 'exploration', 'DESIGN.md §3 C05',
              'bounded-exhaustive enumeration of ordered selector pairs x namespace maps x documents on the real select(), checked against Boolean-algebra laws between its own answers',
              'Every ordered pair of a 133-selector pool that covers every pseudo-class name in the parser tables (names missing from the pool are added from the tables at run time) x {no map, prefix map, map with default namespace} x five rich documents as html.parser/lxml/html5lib/XHTML/XML: union, :is union, :is = list, :not complement, :not list complement, :where/:matches = :is, compound intersection, monotonicity, document order, and the namespace-neutral forms of the laws. Quick takes the pairs with an HTML-only/state/namespaced/custom member; thorough all pairs.',
              'relational oracle only (what each selector should select is C01/C17); universe = what * selects under the same map.'),
    'C06': _c('E1', 'exploration', 'DESIGN.md §3 C06',
              'bounded-exhaustive enumeration of lexeme words and custom-selector maps on the real compile(), outcome-class oracle',
              'All words of <=3 (thorough 4) lexemes over a 84-lexeme alphabet (every operator, bracket, quote, escape form incl. NUL/out-of-range/surrogate/EOF, line breaks, function openers, at-rule/pseudo-element starts, comments, custom names, a 4301-digit number, non-ASCII characters that re.I folds onto ASCII), words of <=4 (6) over a 16-lexeme core and <=5 (6) over an attribute/flag core; all custom maps of <=2 entries over 12 keys x 16 values x 10 using patterns. Only SoupSieve / SelectorSyntaxError / NotImplementedError (with @ or ::) / KeyError (two names equal after unescape+lower) may come out.',
              'nesting depth far below the recursion budget; warnings ignored.'),
    'C07': _c('E5', 'exploration', 'DESIGN.md §3 C07',
              'exhaustive enumeration of pumped string families over every live regex, compile() and attribute matching, with CPU-time growth classification on a doubling ladder',
              'Every (prefix, pump, suffix) triple over a 51-fragment alphabet (quick: pump of one fragment, reduced prefix/suffix menus; thorough: pumps of two fragments) driven through each of the ~45 regex objects found by walking the modules and tokenizer (match; finditer where the source scans), through compile(), and on the document side through the value patterns of all 7 attribute operators and match(). Flagged: any input <=64 chars over 1 s; any family whose time ratio on doubling exceeds 64 above 50 ms or that hits the 2 s cap right after a fast rung.',
              'timing is the observable (thresholds leave 2-3 orders of magnitude each side, flagged families are re-measured); all lengths approximated by n<=256 repetitions.'),
    'C08': _c('E1', 'exploration', 'DESIGN.md §3 C08',
              'bounded-exhaustive enumeration of focus elements x attribute-content menus x contexts x selectors x entry points on the real API, no-exception / return-type oracle with watchdog',
              'Every pseudo-class name from the parser tables (functional ones in several argument shapes), every attribute operator, class, id - alone, under :not(), after > and before + - against ~3000 (thorough ~25000) focus elements (type x min/max/value pairs and triples, dir x text, lang, name/checked/disabled/required, placeholder/value/content) surrounded by fixed companions, in 7 contexts (form/fieldset, legend, several top-level nodes, parentless, iframe, XML, XHTML with foreign/unknown namespaces), element-less documents, odd API values (None, numbers, bytes, nested lists) on attribute/class/id selectors, non-Tag targets (TypeError exactly then). All six entry points.',
              'documents API-built; one open known finding (digit runs beyond the int() limit) is reported as KNOWN-FINDING.'),
    'C09': _c('E1', 'exploration', 'DESIGN.md §3 C09',
              'exhaustive enumeration of lexical respellings (single sites, all pairs, small triples) of AST-generated base selectors on the real compile(), IR-equality and same-selection oracle',
              '113 (thorough 323) base selectors (every attribute operator/flag, namespaces, An+B incl. of S, :lang/:dir/contains lists, combinators, nested :not/:is/:where/:matches/:has) rendered into rewrite sites: whitespace/comment gaps of 7 kinds, identifier escapes (hex, six-digit, backslash, escaped upper case), string quoting/escapes/escaped newline, keyword case. Every single-site rewrite, every two-site combination (quick: bases with <=14 sites), every three-site combination for small bases (thorough).',
              'comments only where CSS allows one without changing tokens; equality is the library\'s own __eq__ (its laws are C15) plus selections on a 4-document corpus.'),
    'C11': _c('E1', 'exploration', 'DESIGN.md §3 C11',
              'exhaustive enumeration of ASCII case variants of every name/value x document materialisations, against the reference case rules',
              'Complete in quick: every case variant of every tag/attribute name/value/class/id in the selector grammar x 7 operators x {none,i,s} against one logical tree as html.parser/lxml/html5lib (lower- and mixed-case source), API-built mixed-case HTML and XML, XHTML and XML; every HTML-only pseudo-class on three kinds of XML-but-not-XHTML documents (incl. XHTML-namespaced elements under a foreign root) with HTML/XHTML positive controls.',
              'ASCII letters only; class/id compare case-sensitively everywhere (no quirks mode).'),
    'C12': _c('E1', 'exploration', 'DESIGN.md §3 C12',
              'exhaustive enumeration of namespace assignments x caller maps x selector forms, against a URI-comparison reference',
              '594 XML documents (every pair of element namespace assignments {none, default, prefix p, prefix q, p redeclared} x every subset of attributes {k, p:k, q:k} x root default; API-built trees binding prefixes and URIs freely incl. two same-named attributes in different namespaces) x 7 caller maps (incl. colliding and empty-URI ones) x 160 selector forms (E, *|E, |E, x|E, y|E, wildcards, [k] forms, implied universal, inside :not/:is, with HTML-only pseudo-classes, chains); html5lib and XHTML documents with inline SVG/MathML/xlink.',
              'attributes stored by bs4 with a namespace but no prefix are not asserted for [k]/[|k]; html.parser/lxml HTML out of scope.'),
    'C13': _c('E1', 'exploration', 'DESIGN.md §3 C13',
              'exhaustive enumeration of (range, tag) pairs on the live filter and of language-determination documents, against an RFC 4647 reference and an inheritance reference',
              'All ranges x all tags of <=3 (thorough 4) subtags over alphabets realising every class the algorithm distinguishes (equal/different, *, singleton, case) plus empty range/tag on extended_language_filter; a sub-square and range lists end to end through :lang(); ~1000 (thorough ~8000) determination documents: lang in {absent, "", en, de-DE} at every level of a depth-3/4 chain x meta pragma x 6 builders x iframe at each depth, plus foreign-namespace crossings.',
              'XHTML meta pragma, odd pragma values and xml:lang on XHTML elements not asserted.'),
    'C14': _c('E3', 'model_checking', 'DESIGN.md §3 C14',
              'stateless exploration of all interleavings of 2-3 real threads up to a preemption bound under an owned scheduler (settrace line/opcode points, semaphore baton), solo-run equality oracle',
              'All schedules with <=1 preemption (and both starting threads) of 58 operation pairs (every unordered pair of 8 compile operations incl. equal-custom-map aliases and same-pattern pairs; select/match/filter/closest on a shared document; purge) - ~80 000 executions of the real code in quick; thorough adds opcode granularity in the tokenizer, 3 threads, and <=2 preemptions for a core set. Each call must return what it returns alone, raise nothing, and leave a cache whose entries equal fresh parses.',
              '<=3 threads, <=2 preemptions, line granularity; C-level switches not modelled; cooperative scheduling hides pure data races without observable effect.'),
    'C15': _c('E2', 'model_checking', 'DESIGN.md §3 C15',
              'explicit-state BFS over compile/purge/pass-through/fill histories on the real cache deduplicated by an LRU model, every transition checked against a fresh uncached parse; exhaustive value laws over argument tuples',
              'All histories of depth <=3 (thorough 4) over 17 actions (8 argument tuples differing in flags / namespaces None,{},map,reordered map / custom, purge, pass-through with and without extra arguments, fills of bound-2 and bound entries) on the real lru cache; plus all ordered pairs of ~350 (thorough ~1500) argument tuples for equal<=>arguments equal and equal=>same hash, pickle (all protocols)/copy/deepcopy round trips (equality, hash, part types, repr, selections), and setattr/delattr/new-attribute/map-mutation attempts on every node of every object graph.',
              'LRU model only merges states; fresh parse = functools __wrapped__.'),
    'C16': _c('E4', 'model_checking', 'DESIGN.md §3 C16',
              'exhaustive enumeration of import-statement sequences, each executed in a fresh interpreter, with a fixed differential probe',
              'All sequences of <=2 (thorough 3) statements over a 13-statement menu (bs4/soupsieve and their submodules, from-imports, star import): 182 (2379) fresh `python -W always` processes with empty cwd; imports must be silent and succeed, BeautifulSoup.select and soupsieve.select must agree, and the 64-entry probe (4 parsers x 16 selectors over comments/CDATA/doctype/forms/lang/dir/SVG) must be identical for all sequences.',
              'bs4 4.15 as installed; state graph = sets of loaded modules.'),
    'C17': _c('E1', 'exploration', 'DESIGN.md §3 C17',
              'exhaustive enumeration of HTML scenario trees x four builders on the real select(), against partition laws and definitional references',
              'Seven scenario families (disabled: fieldset x child sequences <=2/3 over a 14-item menu; flags; default: <=2/3 controls x 5 layouts incl. twin forms, iframes, nested forms; radio groups: <=2/3 radios x name x checked x 4 placements; placeholder; range; dir incl. iframes) x {API, html.parser, lxml, html5lib}; laws (enabled/disabled, required/optional, read-write/read-only, in/out of range, link = any-link, checked subset default, exactly one direction) and HTML-Standard definitions (:disabled, :default, :indeterminate, :placeholder-shown, ranges) with iframe boundaries.',
              'typeless <button>, nested forms, unknown input types, hidden inputs are not asserted (listed in the evidence).'),
    'C18': _c('E1', 'exploration', 'DESIGN.md §3 C18',
              'exhaustive enumeration of date/time/number strings and (min,max,value) triples on Inputs.parse_value and the public :in-range/:out-of-range, against an independent calendar',
              'Every year of 1-2400, 9990-10010, 100000-100009 (thorough: a full 400-year period per digit length, 1-10399 and 100000-100399) in 3 spellings x weeks 00-54, months 00-13 x days 00-32, datetime products; all HH:MM; number shapes; whitespace/newline-decorated and cross-type strings; all 343 (min,max,value) triples per type incl. reversed bounds; end-to-end replay of week-53/29-February/boundary strings.',
              'one open known finding (week 53 over-acceptance, pinned by the repository test-suite) is reported as KNOWN-FINDING; seconds/space separator/exponent treated as invalid.'),
    'C19': _c('E1', 'exploration', 'DESIGN.md §3 C19',
              'exhaustive enumeration of child-node words x search strings x text pseudo-class forms on HTML and XML soups, against a text-content reference',
              'A subject element whose children are every word of length <=3 (thorough 4) over {texts, NBSP, Comment, CData, PI, Declaration, Doctype, span variants with nested words, iframe with content} plus deep layouts (text after an iframe that is a last child several levels down) x 9 search strings x :-soup-contains/:contains/:-soup-contains-own with 1-2 values, two text pseudo-classes in one compound in every order/kind, :empty.',
              'an iframe element as the subject is not asserted; documents API-built.'),
    'C20': _c('E1', 'exploration', 'DESIGN.md §3 C20',
              'exhaustive enumeration of patterns x offsets on get_pattern_context, of all raised SelectorSyntaxErrors over lexeme words (offset captured by wrapping the seam), of DEBUG vs plain compiles, and of pretty() under a step budget',
              'All patterns of length <=6 (thorough 8) over {a,b,LF,CR} x all offsets; every SelectorSyntaxError over all words of <=3 (4) lexemes incl. LF/CR/CRLF: line, column, context, offset within the pattern, position present; DEBUG changes no result over words <=3; pretty() on ~1200 selectors (all attribute operators/flags, negative An+B, nested lists) finishes within 200*len(repr)+10^4 line events and equals repr up to whitespace.',
              'offsets between CR and LF skipped; any common prefix width accepted.'),
})


# ---- additions after the seeded waves (layers that were added to the checks) ----
def _add(pid, extra_text, extra_note=None):
    CHECKS[pid]['text'] = CHECKS[pid]['text'].rstrip() + ' ' + extra_text
    if extra_note:
        CHECKS[pid]['note'] = CHECKS[pid]['note'].rstrip() + ' ' + extra_note


_add('C01', 'The attribute layer also runs on an XHTML materialisation and with name-case variants; attribute values include inner line breaks and non-CSS whitespace.')
_add('C02', 'Pickled / deep-copied / copied compiled nth selectors must select what the original selects.')
_add('C03', 'Further layers: id-less structural twins; namespaced XML where select/filter/select_one must equal the elements a fresh uncached compile accepts one by one, inside call sequences WITHOUT purge whose namespace/custom maps share keys and differ in values; and "&" = ":scope" for 10 spellings x 5 maps (with default namespaces) x every target x 5 entry points.')
_add('C04', 'Edit layer: [query, edit the tree (meta, lang, checked, new submit, class, dir), query] must equal the second query on a never-queried copy with the same edit, for 9 edits x 12 queries on every document.')
_add('C05', 'Includes a document whose language comes only from the <meta> pragma with an iframe holding its own document, and id-qualified :lang() selectors.')
_add('C06', 'The alphabet includes stray C0/C1 controls and unnamed code points; empty custom/namespaces maps in every argument shape.')
_add('C07', 'Also: custom-selector definition chains (Fibonacci-shaped, doubling, nested :not, linear) on a ladder of lengths - the map is input too; CR LF / CR / FF / TAB fragments; the watchdog counts the process\'s own CPU time.')
_add('C08', 'Odd API values are additionally placed on forms, controls and neighbours while EVERY selector runs through all entry points; zero-step An+B selectors; a selector that hung once is reported once per worker.')
_add('C09', 'Bases include identifiers that contain or end in escaped whitespace, NBSP and quotes (also at both ends of the pattern).')
_add('C10', 'Quick now covers the whole BMP; a second target stores its class as a plain string; both surrogate halves are in the word alphabet; a raw-NUL near-miss decoy accompanies values containing U+FFFD.')
_add('C11', 'Names over the whole alphabet (a..z) and non-ASCII case pairs (e.g. k / KELVIN SIGN, sigma, sharp s) that must NOT match in HTML.')
_add('C12', 'Top-level comma lists with type-less members and type-less lists inside :not/:is/:nth-child(of S)/:has behind explicitly prefixed compounds.')
_add('C13', 'Shares the edit layer of C04 (the language is a function of the tree as it is now).')
_add('C14', 'Every execution starts with util.lower\'s cache full (600 names), as in a long-lived process; operations on two different parentless elements.')
_add('C15', 'Also: the caller mutates the dicts it passed to compile afterwards; argument tuples whose custom maps share an alias body but define the nested alias differently; compile(compiled, <the arguments it was compiled with>).')
_add('C16', 'Interpreter-wide state (warnings filters, sys.path, environ, hooks, signals, locale, logging, gc, meta_path, builtins) is snapshotted around the imports and compared with a control import of Beautiful Soup with soupsieve blocked; the probe covers namespaced attributes, xml:lang, namespaces=/custom=, match/closest/filter and escape.')
_add('C17', 'A deep-iframe family (iframe as last child 0..3 levels down, deciding controls after it); every third document is re-checked under a foreign default namespace map.')
_add('C18', 'All two-call sequences over (type, string) that share the type or the string must give the stand-alone result; non-ASCII digits.')
_add('C19', 'Raw-text argument lists with comments, quotes and bare identifiers next to the commas, each with the AST it must mean; text and needles that begin/end with quotes and backslashes.')
_add('C20', 'Long (re-truncated) values and URL-like values full of regex metacharacters in the pretty-printer set.')

# ---- additions after waves 4-7 ----
_add('C01', 'Further document kinds: HTML documents whose elements carry the XHTML namespace with names stored in mixed case (what html5lib builds), detached trees (call target = root element, no BeautifulSoup object above), trees in which an iframe is an ordinary parent; layer N: 936 functional selectors with permuted tag-less lists under 5 outer compounds on mixed-namespace XML with 3 caller maps (default namespace); class strings whose tokens merely contain the selected names.')
_add('C02', 'Rows inside an iframe, rows with processing instructions and declarations between the elements, rows mixing namespaces (one prefix bound to two URIs, two prefixes to one) with plain, of-type and of-S (bare, *|, prefixed, list) forms under 5 maps; several positional pseudo-classes in one compound.')
_add('C03', 'The module-function = compile().method equation also on a namespaced document where the map decides the answer (prefix, default namespace, custom selectors using the prefix); "&" written after flag-carried pseudo-classes (:empty, :root, :defined, :dir()).')
_add('C04', 'Layers alone-ns (six entry points agree element by element on namespaced documents under 5 maps incl. no map and a re-bound prefix) and reuse (one compiled object on document A, B, A, B against fresh compiles on pristine copies, all ordered document pairs); boolean attributes with non-canonical values and varying attribute order.')
_add('C06', 'Lexemes with an escaped letter inside a pseudo-class name, and text that means something to str.format / % formatting.')
_add('C07', 'Value layer with regex-syntax selector values in quoted and escaped-identifier spelling; An+B openings as prefixes of digit pumps (time must not follow the VALUE of a number).')
_add('C08', 'Layer parsed: 6 rich documents x 5 real builders (html.parser, lxml, html5lib, lxml-xml XHTML and XML) x all selector texts + 11 namespace forms x all entry points on the document, every element and detached copies; elements ending in an iframe; exotic str content (lone surrogates, NUL, U+0080, U+10FFFF, case-mapping oddities) and a sweep of every 17th code point (thorough: every one) as tag name, attribute name and type/dir/lang/value; pairs of pseudo-classes that keep per-call bookkeeping.')
_add('C09', 'Code-point sweep: a character equals its hex escape (short form and six upper-case digits) as class, id and quoted value for 33 boundary code points and every 13th (thorough: every) code point from U+00A0 to U+10FFFF; regex-syntax attribute values.')
_add('C11', 'util.lower on EVERY code point against ASCII-only folding; html5lib-shaped documents (HTML + XHTML namespace, mixed-case stored names, adjusted SVG names).')
_add('C12', 'Laws on html5lib / XHTML documents with a form: T:PC = T intersected with :PC, ":PC, U" = union, ":PC ~ T" composed by hand, for 16 HTML pseudo-classes x 5 typed forms x 3 maps (the caller\'s map stays in force around the library\'s internal selectors).')
_add('C13', 'Several :lang() in one compound (conjunction, under :not and :is); pragma with attributes in either order; range lists spelled with comments that contain range-shaped text.')
_add('C14', 'Quick now also: a conflict-directed second pass with two preemptions, both next to a source line that writes watched shared state (every lru_cache, module/class/default-argument/closure containers, interpreter settings; learned from the preemption-free executions), for tuples with <=35 such points; range-input operations (ordinary and > 4300-digit values, compiled inside and outside the thread); a rejected pattern; interpreter settings compared after every schedule; library containers restored to their post-import content before every execution; fill levels around the capacity of a home-grown memo; cooperative Lock/RLock/Event/Condition/Semaphore (waiting is a scheduling event, all-threads-waiting is reported as deadlock).')
_add('C15', 'Every entry point rejects every kind of extra argument (empty maps included) on compiled objects; map laws on all sequences of <=3 pairs over 2 keys x 2 values as list/tuple/dict for ImmutableDict, Namespaces, CustomSelectors and through compile(); texts the parser reads alike must stay unequal as objects and each object records the pattern/flags it was given; == / != consistency on structures whose hashes collide (hash(-1) == hash(-2)); a round trip that raises is an outcome.')
_add('C16', 'The probe document holds every string class Beautiful Soup has (script, style, template, ruby text/parenthesis, comment, CDATA, doctype, processing instruction) with selectors whose answer depends on which of them count as text.')
_add('C17', 'Boolean attributes with non-canonical values; attribute order varies; nested-form placement of radios (a control belongs to its nearest form); law: a disabled or readonly control is never :read-write unless it is an editing host.')
_add('C18', 'Type keyword in other ASCII cases; layer variants: the (min,max,value) triples under XHTML with other-case decoy attributes (API-built and parsed), html5lib, lxml, and on readonly / disabled / fieldset-disabled inputs.')
_add('C19', 'Search texts spelled as escaped bare identifiers; whitespace kinds FF/TAB/CR/LF, VT, EM SPACE among the text leaves.')
_add('C20', 'Patterns over wide, combining, astral and zero-width characters and TAB (a column is a code-point offset); DEBUG-invariance repeated with a default namespace, a prefix and custom selectors in force.')

# ---- additions after wave 8 ----
_add('C01', 'Layer D: every chain of 4 and 5 nested elements (with extra siblings on the spine) x 64 combinator triples for four-compound selectors, :has() with three-compound relative chains, their negation and :is(three compounds) k X, rooted and detached.')
_add('C02', 'Rows in which every second <a> is stored as <A> (HTML tree edited through the API).')
_add('C03', 'filter() over a bs4 ResultSet, a tuple and a reversed list.')
_add('C04', 'filter() over ResultSet / list / reversed list / find_all(True) of all elements equals match() element by element, with :scope selectors.')
_add('C05', 'Every law also with the list typed with comments and blanks around the comma (three spellings).')
_add('C08', 'A call that trips the watchdog is narrowed down to one element so that the witness replays on its own.')
_add('C09', 'The sweep also writes the six-digit escape followed by a blank.')
_add('C12', 'Laws "custom alias = its definition inside :is()" for 4 aliases x 8 typed/untyped forms x 4 placements x 7 maps.')
_add('C16', 'The probe includes an XHTML document binding the prefixes html: and svg: to other URIs (Beautiful Soup passes the document prefixes as namespaces=).')
_add('C19', 'A document parsed by html.parser, lxml and html5lib holding script / style / template / ruby / textarea / title / noscript / CDATA / PI content, 34 selectors against the reference.')
_add('C20', 'All words of <=2 lexemes as the definition of a custom selector used inside an outer pattern: the reported offset lies inside the text the context shows.')

# ---- additions after wave 9 ----
_add('C01', 'Functional lists with the complex selector in LAST and MIDDLE position and two complex selectors side by side (:is(X, A > B), :not(X, A B, Y), :where(A + B, C ~ D)), under every anchor and neighbour form of layer F.')
_add('C08', 'Layer pairs: every unordered pair of pseudo-class atoms written as ONE compound (4444 compounds; both orders when one member reads text or keeps per-call bookkeeping) on parsed documents (quick: forms via html.parser, struct via html5lib; thorough: 6 documents x 5 builders), all entry points on the document and match() on every element.')
_add('C09', 'Attribute values holding blanks (v w, a lone blank, TAB, leading blank, trailing LF) under every one of the seven operators, each spelled as a string and as an identifier with escapes.')
