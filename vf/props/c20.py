"""C20 — diagnostics point at the right place and always terminate.

(i)   get_pattern_context(pattern, index) for ALL patterns of length <= L over {a, b, LF, CR} (every mix of LF, CR LF, CR) x all
      indices 0..len: line = 1 + line breaks before the offset (CR LF once), column = offset - line start + 1, context = the
      pattern's lines behind one common prefix width, exactly one caret line directly after the reported line, caret under the column.
(ii)  End to end: every SelectorSyntaxError raised over all words of <= k lexemes of an alphabet with line breaks; the offset each
      error reports is captured by wrapping util.get_pattern_context from outside; line/column/context must describe that offset of
      that pattern, the offset must lie in 0..len(pattern); an error without a position is a violation.
(iii) DEBUG: compile(p, flags=DEBUG) and compile(p) give equal selectors or the same exception type, line and column.
(iv)  pretty() on every selector of the C01/C02/C09 grammars under a line-event budget; output equals repr up to whitespace.
"""
from __future__ import annotations
import contextlib
import io
import itertools
import sys
import warnings
from ..engine import shard
from ..gen import selectors as S

ID = 'C20'
LEVEL = 'exploration'
ALPHA = 'ab\n\r'
LEX = ['a', '*', '#', '.', '[', ']', '=', '"', ' ', ',', '>', ':', '(', ')', '\n', '\r', '\r\n', ':is(', ':not(', '%']


def split_lines(p):
    """-> list of (start, text); line breaks: CR LF, LF, CR."""
    out, start, i = [], 0, 0
    while i < len(p):
        if p[i] == '\r' and i + 1 < len(p) and p[i + 1] == '\n':
            out.append((start, p[start:i]))
            i += 2
            start = i
        elif p[i] in '\r\n':
            out.append((start, p[start:i]))
            i += 1
            start = i
        else:
            i += 1
    out.append((start, p[start:]))
    return out


def inside_break(p, index):
    return 0 < index < len(p) and p[index - 1] == '\r' and p[index] == '\n'


def expected_position(p, index):
    lines = split_lines(p)
    k = 0
    for j, (st, _) in enumerate(lines):
        if st <= index:
            k = j
    return k + 1, index - lines[k][0] + 1, lines


def judge_context(p, index, context, line, col):
    """None or a reason string."""
    eline, ecol, lines = expected_position(p, index)
    if (line, col) != (eline, ecol):
        return f'reports line {line} column {col}, the offset {index} is line {eline} column {ecol}'
    got = context.split('\n')
    # context lines cannot be split back unambiguously if a pattern line itself contains CR; patterns lines never do after splitting
    n = len(lines)
    if len(got) != n + 1:
        return f'context has {len(got)} lines for a pattern of {n} line(s) (one caret line expected)'
    caret_at = eline            # directly after the reported line (0-based index eline)
    body = got[:caret_at] + got[caret_at + 1:]
    caret = got[caret_at]
    w = None
    for (st, text), g in zip(lines, body):
        if not g.endswith(text):
            return f'context line {g!r} does not reproduce pattern line {text!r}'
        pw = len(g) - len(text)
        if w is None:
            w = pw
        elif pw != w:
            return f'context lines use different prefix widths ({w} and {pw})'
    if n == 1 and w != 0:
        pass    # a prefix on a single-line pattern is harmless as long as the caret accounts for it
    if caret != ' ' * (w + ecol - 1) + '^':
        return f'caret line {caret!r} is not under column {ecol} (prefix width {w})'
    return None


def shards(tier, seed):
    out = [('ctx', a, b) for a in ALPHA for b in ALPHA]
    out += [('e2e', i, 32) for i in range(32)]
    out += [('debug', i, 8) for i in range(8)]
    out += [('pretty', i, 16) for i in range(16)]
    return [(tier,) + s for s in out]


def run_ctx(sv, tier, a, b, res):
    gpc = getattr(sv.util, 'get_pattern_context', None)
    if gpc is None:
        res.extra['seam_missing'] = 'util.get_pattern_context not found; layer (i) skipped, layer (ii) still checks every raised error'
        return
    L = 7 if tier == 'quick' else 8
    pats = ['', a, a + b] if (a, b) == ('a', 'a') else [a + b]
    for n in range(0, L - 1):
        for rest in itertools.product(ALPHA, repeat=n):
            p = a + b + ''.join(rest)
            if n == 0 and p in pats:
                pass
            for index in range(0, len(p) + 1):
                if inside_break(p, index):
                    # which of the two adjacent lines such an offset belongs to is not pinned down; that it is reported on one of them,
                    # with exactly one caret line, is
                    try:
                        ctx, line, col = gpc(p, index)
                        k = expected_position(p, index - 1)[0]
                        why = None
                        if line not in (k, k + 1):
                            why = f'offset inside a CR LF pair reported on line {line}, expected {k} or {k + 1}'
                        elif sum(1 for x in ctx.split('\n') if x.strip() == '^') != 1:
                            why = 'no caret line for an offset inside a CR LF pair'
                    except Exception as e:
                        why = f'raised {e!r}'
                    res.evaluations += 1
                    if why:
                        res.fail({'layer': 'ctx-weak', 'pattern': p, 'index': index}, {'kind': 'context', 'at_end': False, 'multiline': True, 'has_lone_cr': False, 'what': 'inside CR LF'},
                                 f'get_pattern_context({p!r}, {index}): {why}')
                    else:
                        res.outcome('inside-break-weakly-ok')
                    continue
                try:
                    with shard.deadline(5):
                        ctx, line, col = gpc(p, index)
                except shard.CaseTimeout:
                    why = 'did not return'
                except Exception as e:
                    why = f'raised {e!r}'
                else:
                    why = judge_context(p, index, ctx, line, col)
                res.evaluations += 1
                if '\n' in p or '\r' in p:
                    res.nontrivial += 1
                if why:
                    multi = len(split_lines(p)) > 1
                    res.fail({'layer': 'ctx', 'pattern': p, 'index': index},
                             {'kind': 'context', 'at_end': index == len(p), 'multiline': multi, 'has_lone_cr': '\r' in p.replace('\r\n', ''),
                              'what': why.split(',')[0].split('(')[0][:40]},
                             f'get_pattern_context({p!r}, {index}): {why}')
                else:
                    res.outcome('position-correct')
    if (a, b) == ('a', 'a'):
        # characters whose display width, UTF-8 length or UTF-16 length differs from 1: a column is an offset in code points within the line
        wide = 'a\n\u65e5\u0301\t\U0001F600\u200b\r'
        for n in range(1, 5):
            for tup in itertools.product(wide, repeat=n):
                p = ''.join(tup)
                if p.isascii():
                    continue
                for index in range(0, len(p) + 1):
                    if inside_break(p, index):
                        continue
                    try:
                        ctx, line, col = gpc(p, index)
                        why = judge_context(p, index, ctx, line, col)
                    except Exception as e:
                        why = f'raised {e!r}'
                    res.evaluations += 1
                    res.nontrivial += 1
                    if why:
                        res.fail({'layer': 'ctx', 'pattern': p, 'index': index},
                                 {'kind': 'context', 'at_end': index == len(p), 'multiline': len(split_lines(p)) > 1, 'has_lone_cr': '\r' in p.replace('\r\n', ''),
                                  'what': 'non-ascii:' + ' '.join(why.split(' ')[:2])}, f'get_pattern_context({p!r}, {index}): {why}')
                    else:
                        res.outcome('position-correct')
    for p in ('', 'a', '\n', '\r\n'):
        if (a, b) == ('a', 'a'):
            for index in range(len(p) + 1):
                if inside_break(p, index):
                    continue
                ctx, line, col = gpc(p, index)
                why = judge_context(p, index, ctx, line, col)
                res.evaluations += 1
                if why:
                    res.fail({'layer': 'ctx', 'pattern': p, 'index': index}, {'kind': 'context', 'at_end': index == len(p), 'multiline': '\n' in p,
                                                                             'has_lone_cr': False, 'what': why[:40]}, f'{p!r}@{index}: {why}')


def run_e2e(sv, tier, i, n, res):
    k = 3 if tier == 'quick' else 4
    calls = []
    orig = getattr(sv.util, 'get_pattern_context', None)
    if orig is not None:
        def spy(pattern, index):
            calls.append((pattern, index))
            return orig(pattern, index)
        sv.util.get_pattern_context = spy
    try:
        count = 0
        for m in range(1, k + 1):
            for w in itertools.product(LEX, repeat=m):
                count += 1
                if count % n != i:
                    continue
                p = ''.join(w)
                del calls[:]
                try:
                    with shard.deadline(10), warnings.catch_warnings():
                        warnings.simplefilter('ignore')
                        sv.purge() if count % 200 == 0 else None
                        sv.compile(p)
                    res.outcome('compiles')
                    continue
                except sv.SelectorSyntaxError as e:
                    err = e
                except shard.CaseTimeout:
                    res.fail({'layer': 'e2e', 'pattern': p}, {'kind': 'timeout'}, f'compile({p!r}) did not return')
                    continue
                except Exception:
                    res.outcome('other-exception(C06)')
                    continue
                res.evaluations += 1
                if '\n' in p or '\r' in p:
                    res.nontrivial += 1
                why = None
                if err.line is None or err.col is None or err.context is None:
                    why = 'the error carries no line/column/context'
                else:
                    lines = split_lines(p.replace('\x00', '�'))
                    if calls:
                        pat, index = calls[-1]
                        if pat != p.replace('\x00', '�'):
                            res.outcome('position-in-derived-pattern')   # e.g. a custom selector body; not this pattern
                            continue
                        if not 0 <= index <= len(pat):
                            why = f'offset {index} outside 0..{len(pat)}'
                        elif inside_break(pat, index):
                            res.unspecified += 1
                            continue
                        else:
                            why = judge_context(pat, index, err.context, err.line, err.col)
                    else:
                        # no seam: the reported position must at least exist in the pattern and the context must show it
                        if not 1 <= err.line <= len(lines) or not 1 <= err.col <= len(lines[err.line - 1][1]) + 1:
                            why = f'line {err.line} column {err.col} is not a position inside the pattern'
                        else:
                            why = judge_context(p, lines[err.line - 1][0] + err.col - 1, err.context, err.line, err.col)
                    if why is None and f'line {err.line}' not in str(err):
                        why = 'the message does not name the line'
                if why:
                    res.fail({'layer': 'e2e', 'pattern': p}, {'kind': 'error-position', 'multiline': len(split_lines(p)) > 1,
                                                             'what': why.split(',')[0].split('(')[0][:40]},
                             f'compile({p!r}) raised SelectorSyntaxError: {why}')
                else:
                    res.outcome('error-position-correct')
                    if count % 4001 == 0:
                        res.sample({'pattern': p, 'line': err.line, 'col': err.col, 'context': err.context})
        # the same words as the DEFINITION of a custom selector used some way into an outer pattern: an error found while reading the definition
        # is located in the definition's text (or, for errors about the use, in the outer pattern) - in either case inside the text it shows
        outer = 'div > a.b :--x'
        count = 0
        for m in range(1, 3):
            for w in itertools.product(LEX, repeat=m):
                count += 1
                if count % n != i or orig is None:
                    continue
                d = ''.join(w)
                del calls[:]
                try:
                    with shard.deadline(10), warnings.catch_warnings():
                        warnings.simplefilter('ignore')
                        sv.purge()
                        sv.compile(outer, custom={':--x': d})
                    res.outcome('compiles')
                    continue
                except sv.SelectorSyntaxError as e:
                    err = e
                except Exception:
                    res.outcome('other-exception(C06)')
                    continue
                res.evaluations += 1
                res.nontrivial += 1
                why = None
                if err.line is None or err.col is None or err.context is None or not calls:
                    why = 'the error carries no line/column/context'
                else:
                    pat, index = calls[-1]
                    if pat not in (d.replace('\x00', '\ufffd'), outer):
                        why = f'position computed in {pat!r}, which is neither the definition nor the pattern'
                    elif not 0 <= index <= len(pat):
                        why = f'offset {index} outside 0..{len(pat)} of the text the context shows ({pat!r})'
                    elif inside_break(pat, index):
                        continue
                    else:
                        why = judge_context(pat, index, err.context, err.line, err.col)
                if why:
                    res.fail({'layer': 'e2e-custom', 'pattern': outer, 'definition': d}, {'kind': 'error-position', 'multiline': len(split_lines(d)) > 1,
                                                                                      'what': 'custom-definition:' + why.split(' ')[0]},
                             f'compile({outer!r}, custom={{":--x": {d!r}}}) raised SelectorSyntaxError: {why}')
                else:
                    res.outcome('error-position-correct')
    finally:
        if orig is not None:
            sv.util.get_pattern_context = orig


DEBUG_CONTEXT = {'namespaces': {'': 'urn:d', 'o': 'urn:o'}, 'custom': {':--x': '.c, [k]', ':--y': 'a :--x'}}


def outcome(sv, p, flags, context=False):
    sink = io.StringIO()
    try:
        with contextlib.redirect_stdout(sink), warnings.catch_warnings():
            warnings.simplefilter('ignore')
            c = sv.compile(p, flags=flags, **(DEBUG_CONTEXT if context else {}))
        return ('ok', c.selectors)
    except sv.SelectorSyntaxError as e:
        return ('SelectorSyntaxError', e.line, e.col)
    except Exception as e:
        return (type(e).__name__,)


def run_debug(sv, tier, i, n, res):
    k = 3
    lex = LEX + [':nth-child(', '2n+1', ':lang(', '"x"', ' of ', '~=', ' i', ':--x', '@m', '::a', '\\', '/* c */']
    count = 0
    for m in range(1, k + 1):
        for w in itertools.product(lex, repeat=m):
            count += 1
            if count % n != i or (tier == 'quick' and m == 3 and count % 3):
                continue
            p = ''.join(w)
            for context in (False, True):
                # second round: with a default namespace, a prefix and custom selectors in force (what DEBUG must not change includes how those are applied)
                if context and not (':--x' in p or count % 2):
                    continue
                sv.purge()
                a = outcome(sv, p, 0, context)
                sv.purge()
                b = outcome(sv, p, sv.DEBUG, context)
                res.evaluations += 1
                if a[0] == 'ok':
                    res.nontrivial += 1
                if a != b:
                    break
            if a != b:
                res.fail({'layer': 'debug', 'pattern': p, 'context': context}, {'kind': 'debug-changes-result', 'plain': a[0], 'debug': b[0], 'with_maps': context},
                         f'compile({p!r}{", namespaces=..., custom=..." if context else ""}): without DEBUG {a[:1] + a[1:][:2] if a[0] != "ok" else "ok"}, with DEBUG {b[:1] + b[1:][:2] if b[0] != "ok" else "ok (different structure)"}')
            else:
                res.outcome('debug-same')


def same_up_to_whitespace(pretty_out, r):
    """repr() of a compiled pattern longer than 200 characters is truncated by the re module and then contains an unterminated string
    literal; 'inside quotes' is undefined there, so the comparison ignores all whitespace.  Otherwise whitespace inside string
    literals must be preserved exactly."""
    if unterminated(r):
        return ''.join(pretty_out.split()) == ''.join(r.split())
    return strip_ws(pretty_out) == strip_ws(r)


def unterminated(s):
    q, i = None, 0
    while i < len(s):
        c = s[i]
        if q:
            if c == '\\' and i + 1 < len(s):
                i += 1
            elif c == q:
                q = None
        elif c in '"\'':
            q = c
        i += 1
    return q is not None


def strip_ws(s):
    out, q, i = [], None, 0
    while i < len(s):
        c = s[i]
        if q:
            out.append(c)
            if c == '\\' and i + 1 < len(s):
                out.append(s[i + 1])
                i += 1
            elif c == q:
                q = None
        elif c in '"\'':
            q = c
            out.append(c)
        elif not c.isspace():
            out.append(c)
        i += 1
    return ''.join(out)


class Budget(Exception):
    pass


def run_budgeted(fn, budget):
    count = [0]

    def tracer(frame, event, arg):
        if event == 'line':
            count[0] += 1
            if count[0] > budget:
                raise Budget()
        return tracer
    sys.settrace(tracer)
    try:
        return fn(), count[0]
    finally:
        sys.settrace(None)


def pretty_selectors(tier):
    from . import c01, c02, c09
    texts = []
    texts += [S.render(l) for l in c01.attr_selectors('quick')]
    texts += [S.render(l) for l in c01.functional_selectors('quick')[::(40 if tier == 'quick' else 8)]]
    texts += [S.render(l) for l in c01.structure_selectors('quick')[::(60 if tier == 'quick' else 10)]]
    texts += [S.render(l) for l in c02.selectors('quick', 'plain')[::(12 if tier == 'quick' else 3)]]
    texts += [S.render(l) for l in c02.selectors('quick', 'ofS')[::(6 if tier == 'quick' else 2)]]
    texts += [c09.render(c09.parts_of(l)) for l in c09.bases('quick')]
    texts += ['[type="a|b" i]', ':lang("de-*", "")', ':-soup-contains("a\\"b", \'c\')', ':is()', ':root:hover', ':nth-child(-100n - 7 of :not(.x, #y))',
              'a:default, :indeterminate', ':in-range', ':dir(rtl)', '[a="]"]', "[a='(']", '[a="\\\\"]', ':--x',
              'a[href="http://www.example-site.org/a.b-c/d.e-f/g.h-i/j.k-l/' + 'm.n-o/' * 40 + '"]', '[a^="' + '.-+*?()[]{}|^$ ' * 20 + '"]', 'a[b$="' + '\\\\.' * 90 + '"]',
              '[a="' + 'x' * 250 + '"]', '[a~="' + 'y' * 500 + '" i]', '[a="' + "q'" * 120 + '"]', '.' + 'c' * 300, '#' + 'i' * 300,
              ':-soup-contains("' + 'z' * 400 + '")', ':lang("' + 'en-' * 100 + 'x")', ', '.join('a%d' % i for i in range(60)), ':is(' + ', '.join('[k="%s"]' % ('v' * i) for i in range(180, 215, 5)) + ')']
    seen, out = set(), []
    for t in texts:
        if t not in seen:
            seen.add(t)
            out.append(t)
    return out


def run_pretty(sv, tier, i, n, res):
    try:
        from soupsieve import pretty as pmod
        pfn = pmod.pretty
    except Exception as e:
        res.extra['pretty_missing'] = repr(e)
        return
    texts = pretty_selectors(tier)
    if i == 0:
        res.count('pretty_selectors', len(texts))
    for ti in range(i, len(texts), n):
        t = texts[ti]
        try:
            with warnings.catch_warnings():
                warnings.simplefilter('ignore')
                c = sv.compile(t, {'x': 'urn:x'}, custom={':--x': 'a > b'})
        except Exception:
            continue
        for obj, what in ((c.selectors, 'selectors'),):
            r = repr(obj)
            budget = 200 * len(r) + 10000
            why = None
            try:
                with shard.deadline(30):
                    out, steps = run_budgeted(lambda: pfn(obj), budget)
            except Budget:
                why = f'pretty() exceeded the step budget of {budget} line events for a repr of {len(r)} characters (no progress)'
            except shard.CaseTimeout:
                why = 'pretty() did not return within 30 s'
            except Exception as e:
                why = f'pretty() raised {e!r}'
            else:
                if not same_up_to_whitespace(out, r):
                    why = 'pretty() output differs from repr() by more than whitespace'
            res.evaluations += 1
            res.nontrivial += 1
            if why:
                feats = '+'.join(sorted(f for f, tok in (('regex-flags-or', '|re.'), ('negative-int', '=-'), ('dotted-name', 're.'), ('empty', '()')) if tok in r))
                res.fail({'layer': 'pretty', 'text': t}, {'kind': 'pretty', 'what': why.split('(')[1][:20] if why.startswith('pretty() ex') else why[:30], 'repr_features': feats},
                         f'{t!r}: {why}')
            else:
                res.outcome('pretty-ok')
        # the method prints the same thing
        sink = io.StringIO()
        try:
            with shard.deadline(30), contextlib.redirect_stdout(sink):
                run_budgeted(lambda: c.selectors.pretty(), 200 * len(repr(c.selectors)) + 10000)
            if not same_up_to_whitespace(sink.getvalue(), repr(c.selectors)):
                res.fail({'layer': 'pretty', 'text': t}, {'kind': 'pretty', 'what': 'method-output'}, f'{t!r}: SelectorList.pretty() printed something else')
        except (Budget, shard.CaseTimeout):
            res.fail({'layer': 'pretty', 'text': t}, {'kind': 'pretty', 'what': 'method-budget'}, f'{t!r}: SelectorList.pretty() did not terminate within budget')
        except Exception:
            pass


def run_shard(desc):
    from .. import common
    sv = common.bind()
    res = shard.Result()
    tier, what = desc[0], desc[1]
    if what == 'ctx':
        run_ctx(sv, tier, desc[2], desc[3], res)
    elif what == 'e2e':
        run_e2e(sv, tier, desc[2], desc[3], res)
    elif what == 'debug':
        run_debug(sv, tier, desc[2], desc[3], res)
    else:
        run_pretty(sv, tier, desc[2], desc[3], res)
    return res


def replay(case):
    from .. import common
    sv = common.bind()
    res = shard.Result()
    if case['layer'] == 'ctx-weak':
        p, index = case['pattern'], case['index']
        ctx, line, col = sv.util.get_pattern_context(p, index)
        k = expected_position(p, index - 1)[0]
        if line not in (k, k + 1) or sum(1 for x in ctx.split('\n') if x.strip() == '^') != 1:
            return {'kind': 'context', 'what': 'inside CR LF'}, f'line {line}, context {ctx!r}'
        return None
    if case['layer'] == 'ctx':
        p, index = case['pattern'], case['index']
        try:
            ctx, line, col = sv.util.get_pattern_context(p, index)
        except Exception as e:
            return {'kind': 'context'}, repr(e)
        why = judge_context(p, index, ctx, line, col)
        return ({'kind': 'context'}, why) if why else None
    if case['layer'] == 'e2e':
        p = case['pattern']
        k = LEX
        r = shard.Result()
        calls = []
        orig = sv.util.get_pattern_context

        def spy(pattern, index):
            calls.append((pattern, index))
            return orig(pattern, index)
        sv.util.get_pattern_context = spy
        try:
            try:
                sv.compile(p)
                return None
            except sv.SelectorSyntaxError as e:
                if e.line is None:
                    return {'kind': 'error-position'}, 'no position'
                if not calls:
                    return None
                pat, index = calls[-1]
                if not 0 <= index <= len(pat):
                    return {'kind': 'error-position'}, f'offset {index} outside pattern'
                if inside_break(pat, index) or pat != p.replace('\x00', '�'):
                    return None
                why = judge_context(pat, index, e.context, e.line, e.col)
                return ({'kind': 'error-position'}, why) if why else None
        finally:
            sv.util.get_pattern_context = orig
    if case['layer'] == 'e2e-custom':
        calls = []
        orig = sv.util.get_pattern_context

        def spy(pattern, index):
            calls.append((pattern, index))
            return orig(pattern, index)
        sv.util.get_pattern_context = spy
        try:
            try:
                sv.compile(case['pattern'], custom={':--x': case['definition']})
                return None
            except sv.SelectorSyntaxError as e:
                err = e
            if not calls:
                return {'kind': 'error-position'}, 'no context computed'
            pat, index = calls[-1]
            if pat not in (case['definition'].replace('\x00', '\ufffd'), case['pattern']) or not 0 <= index <= len(pat):
                return {'kind': 'error-position'}, f'offset {index} in {pat!r}'
            why = judge_context(pat, index, err.context, err.line, err.col)
            return ({'kind': 'error-position'}, why) if why else None
        finally:
            sv.util.get_pattern_context = orig
    if case['layer'] == 'debug':
        sv.purge()
        a = outcome(sv, case['pattern'], 0, case.get('context', False))
        sv.purge()
        b = outcome(sv, case['pattern'], sv.DEBUG, case.get('context', False))
        return None if a == b else ({'kind': 'debug-changes-result'}, f'{a[:3]} vs {b[:3]}')
    run_pretty_one = shard.Result()
    from soupsieve import pretty as pmod
    c = sv.compile(case['text'], {'x': 'urn:x'}, custom={':--x': 'a > b'})
    r = repr(c.selectors)
    try:
        with shard.deadline(30):
            out, steps = run_budgeted(lambda: pmod.pretty(c.selectors), 200 * len(r) + 10000)
    except (Budget, shard.CaseTimeout):
        return {'kind': 'pretty'}, 'does not terminate within budget'
    return None if same_up_to_whitespace(out, r) else ({'kind': 'pretty'}, 'differs from repr')


def check(tier, seed):
    res, info = shard.run(__name__, shards(tier, seed), order_seed=seed)
    cov = {
        'rule': ('(i) all patterns <= L over {a,b,LF,CR} x all offsets; (ii) every SelectorSyntaxError over all words <= k lexemes; (iii) DEBUG vs plain '
                 'compile over words <= 3; (iv) pretty() on every selector of the grammar sets under a step budget; non-trivial = the pattern has '
                 'more than one line (i, ii), the pattern compiles (iii), every pretty-printed selector (iv); cases distinct by construction'),
        'exhaustive': not info['cap_hit'], 'max_pattern_length': 7 if tier == 'quick' else 8, 'max_lexemes': 3 if tier == 'quick' else 4,
        'seam_missing': res.extra.get('seam_missing'),
    }
    return {'result': res, 'coverage': cov, 'info': info,
            'assumptions': ['offsets that fall between the CR and LF of one line break are skipped (no position is defined there)',
                            'the context may use any common prefix width as long as the caret accounts for it']}
