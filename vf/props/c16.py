"""C16 — importing works in either order and Beautiful Soup can always select.

E4 (program enumeration): every sequence of <= 2 (thorough 3) import statements over a 20-statement menu, each sequence in a
fresh interpreter (`python -W always`, empty working directory, PYTHONPATH = the tree under test), followed by a fixed
probe: BeautifulSoup(markup, parser).select(sel) and soupsieve.select(sel, soup) for 4 parsers x 16 selectors on markup
holding comments, CDATA, a doctype, forms, lang/dir and namespaces.
Oracle: exit status 0; nothing on stdout/stderr during the imports (no output, no warnings); bs4's .select and
soupsieve.select agree; the probe output is identical for all sequences.
State-graph view: state = set of bs4*/soupsieve* modules loaded after each statement, transition = one import statement.
"""
from __future__ import annotations
import itertools
import json
from ..engine import shard, procs

ID = 'C16'
LEVEL = 'model_checking'
SURVIVES_IMPORT_FAILURE = True

MENU = [
    'import bs4', 'from bs4 import BeautifulSoup', 'import bs4.element', 'import bs4.css', 'import soupsieve', 'from soupsieve import compile',
    'import soupsieve.css_match', 'import soupsieve.css_parser', 'import soupsieve.css_types', 'import soupsieve.util', 'import soupsieve.pretty',
    'import soupsieve.__meta__', 'from soupsieve import *',
    'from soupsieve.css_types import *', 'from soupsieve.css_match import *', 'from soupsieve.css_parser import *', 'from soupsieve.util import *',
    'from soupsieve.pretty import *', 'from soupsieve.__meta__ import *', 'from bs4 import *',
]

WORLD = r'''import sys, json, os, warnings as _w, threading as _t, gc as _gc, locale as _loc, logging as _lg, signal as _sg
def _world():
    return {
        "warnings.filters": [repr(f) for f in _w.filters], "warnings.showwarning": repr(_w.showwarning), "warnings.defaultaction": _w.defaultaction,
        "warnings.onceregistry": len(getattr(_w, "onceregistry", {})), "sys.path": list(sys.path),
        "environ": dict(os.environ), "cwd": os.getcwd(), "excepthook": repr(sys.excepthook), "displayhook": repr(sys.displayhook),
        "threads": _t.active_count(), "gc": [_gc.isenabled(), list(_gc.get_threshold())], "recursionlimit": sys.getrecursionlimit(),
        "locale": _loc.setlocale(_loc.LC_ALL), "logging": [_lg.root.level, len(_lg.root.handlers), _lg.raiseExceptions],
        "signals": [repr(_sg.getsignal(s)) for s in (_sg.SIGINT, _sg.SIGTERM, _sg.SIGALRM)], "stdout": repr(sys.stdout), "stderr": repr(sys.stderr),
        "int_max_str_digits": sys.get_int_max_str_digits(), "switchinterval": sys.getswitchinterval(), "trace": repr(sys.gettrace()),
        "profile": repr(sys.getprofile()), "meta_path": [repr(type(x)) for x in sys.meta_path], "path_hooks": len(sys.path_hooks),
        "builtins": sorted(dir(__builtins__)),
    }
'''

PROBE = WORLD + r'''
MARK = "\n===IMPORTS-DONE===\n"
_w0 = _world()
states = []
def snap():
    return sorted(m for m in sys.modules if m == "bs4" or m.startswith("bs4.") or m == "soupsieve" or m.startswith("soupsieve."))
for stmt in STATEMENTS:
    exec(stmt, {})
    states.append(snap())
_w1 = _world()
world_delta = {k: [_w0[k], _w1[k]] for k in _w0 if _w0[k] != _w1[k]}
sys.stdout.write(MARK); sys.stdout.flush()
sys.stderr.write(MARK); sys.stderr.flush()
import warnings
warnings.simplefilter("ignore")
import bs4, soupsieve
MARKUP = """<!DOCTYPE html><html lang="en"><head><meta http-equiv="content-language" content="de"><title>t</title></head><body>
<div id="d" class="a b"><!--secret--><p id="p1">one<!--two--></p><p id="p2" dir="rtl"></p><p id="p3"><![CDATA[cd]]></p><span id="s"> </span></div>
<div id="e"><!--only comment--></div><form><input id="i1" type="checkbox" checked><input id="i2" type="number" min="1" max="3" value="5">
<input id="i3" type="radio" name="n"><button id="b" type="submit">go</button></form><?pi x?>
<script id="sc">var x</script><style id="st">p{}</style><template id="tp">tmpl</template><ruby id="rb">k<rt id="rt">ruby</rt><rp id="rp">(</rp></ruby><textarea id="ta">area</textarea><p id="auto" dir="auto">\u05d0\u05d1</p><bdi id="bd">\u05d0</bdi><svg xmlns:xlink="http://www.w3.org/1999/xlink" xml:lang="fr"><circle id="c"/><a id="sa" xlink:href="u" href="v"><text id="tx">t</text></a></svg></body></html>"""
SELECTORS = ["p", "div:empty", "p:-soup-contains(secret)", ":-soup-contains-own(one)", ":root", "p:nth-child(2)", ":lang(en)", "[class~=a]",
             ":checked", ":dir(rtl)", ":out-of-range", ":default", ":indeterminate", "div > p:not(:empty)", "span:empty, #e:empty", ":has(> circle)",
             # every string class Beautiful Soup has (script, style, template, ruby text, comment, CDATA, doctype, processing instruction): which of
             # them count as text is decided by classes the matcher takes from bs4, whenever it was imported
             ":empty", ":-soup-contains(var)", ":-soup-contains-own(ruby)", "style:-soup-contains('p{}')", "template:-soup-contains(tmpl)", ":-soup-contains-own('(')",
             ":dir(rtl)", ":dir(ltr)", "html:-soup-contains(secret, two, cd, pi, html)", ":not(:empty)"]
out = {}
for parser in ("html.parser", "lxml", "html5lib", "xml"):
    soup = bs4.BeautifulSoup(MARKUP, parser)
    for sel in SELECTORS:
        a = [str(x.get("id")) + "/" + x.name for x in soup.select(sel)]
        b = [str(x.get("id")) + "/" + x.name for x in soupsieve.select(sel, soup)]
        c = soup.select_one(sel)
        out[parser + "|" + sel] = [a, b, None if c is None else c.name]
    NS = {"svg": "http://www.w3.org/2000/svg", "xlink": "http://www.w3.org/1999/xlink", "h": "http://www.w3.org/1999/xhtml"}
    for sel in ("[xlink|href]", "[*|href]", "svg|a", "svg|*:lang(fr)", ":lang(fr)", "h|p", "[|href]", ":--x"):
        a = [str(x.get("id")) + "/" + x.name for x in soup.select(sel, namespaces=NS, custom={":--x": "p:not(:empty)"})]
        b = [str(x.get("id")) + "/" + x.name for x in soupsieve.select(sel, soup, namespaces=NS, custom={":--x": "p:not(:empty)"})]
        out[parser + "|ns|" + sel] = [a, b, None]
    p1 = soup.find(id="p1")
    if parser == "xml":
        # Beautiful Soup passes the prefixes it met while parsing as namespaces=; a document that binds a prefix the library also uses internally
        # ("html") to some other URI must still get the same answers from both routes
        odd = bs4.BeautifulSoup('<html xmlns="http://www.w3.org/1999/xhtml" xmlns:html="http://www.w3.org/TR/REC-html40" xmlns:svg="urn:not-svg"><body><form>'
                                '<a id="l" href="u">x</a><input id="c" type="checkbox" checked=""/><input id="d" disabled=""/><input id="r" required=""/>'
                                '<input id="s" type="submit"/><html:p id="hp">t</html:p><svg:g id="g"/></form></body></html>', "xml")
        for sel in (":link", ":any-link", ":checked", ":disabled", ":enabled", ":required", ":optional", ":default", ":read-write", "html|p", "svg|g", ":root", ":dir(ltr)"):
            a = [str(x.get("id")) + "/" + x.name for x in odd.select(sel)]
            b = [str(x.get("id")) + "/" + x.name for x in soupsieve.select(sel, odd, namespaces=odd._namespaces)]
            c2 = [str(x.get("id")) + "/" + x.name for x in soupsieve.select(sel, odd)] if "|" not in sel else a
            out["odd-prefix|" + sel] = [a, b, None]
            out["odd-prefix-vs-no-map|" + sel] = [a, c2, None]
    if p1 is not None:
        out[parser + "|api"] = [[soupsieve.match("div > p", p1), soupsieve.closest("div", p1).get("id"), [x.get("id") for x in soupsieve.filter("p", p1.parent)]],
                                [p1.css.match("div > p"), p1.css.closest("div").get("id"), [x.get("id") for x in p1.parent.css.filter("p")]], soupsieve.escape("1 a.b")]
print(json.dumps({"states": states, "probe": out, "world_delta": world_delta}, sort_keys=True, default=repr))
'''


CONTROL = WORLD + r'''
_w0 = _world()
sys.modules["soupsieve"] = None      # Beautiful Soup imported WITHOUT soupsieve: whatever changes now is not soupsieve's doing
import warnings
with warnings.catch_warnings():
    warnings.simplefilter("ignore")
    import bs4
    import bs4.builder._html5lib, bs4.builder._lxml, bs4.builder._htmlparser
_w1 = _world()
print(json.dumps({k: [_w0[k], _w1[k]] for k in _w0 if _w0[k] != _w1[k]}, sort_keys=True, default=repr))
'''
_CONTROL = []


def control_delta():
    """World changes caused by importing Beautiful Soup and its parsers alone (soupsieve blocked): the allowance."""
    if not _CONTROL:
        rc, out, err = procs.run_program(CONTROL)
        try:
            _CONTROL.append(json.loads(out.strip().splitlines()[-1]))
        except Exception:
            _CONTROL.append(None)
    return _CONTROL[0]


def sequences(tier):
    k = 2 if tier == 'quick' else 3
    out = []
    for n in range(1, k + 1):
        out += list(itertools.product(range(len(MENU)), repeat=n))
    return out


def shards(tier, seed):
    seqs = sequences(tier)
    n = 32 if tier == 'quick' else 128
    return [(tier, i, n) for i in range(n)]


def run_sequence(seq):
    """-> dict(ok, kind, detail, states, probe)"""
    stmts = [MENU[i] for i in seq]
    src = 'STATEMENTS = ' + repr(stmts) + '\n' + PROBE
    rc, out, err = procs.run_program(src)
    mark = '\n===IMPORTS-DONE===\n'
    r = {'stmts': stmts, 'rc': rc}
    pre_out, _, post_out = out.partition(mark)
    pre_err, _, post_err = err.partition(mark)
    if mark not in out:
        first_fail = None
        r.update(kind='import-fails', detail=(err.strip().splitlines() or ['?'])[-1][:300])
        return r
    if pre_out.strip() or pre_err.strip():
        r.update(kind='import-side-effect', detail=('stdout: ' + pre_out.strip()[:150] + ' stderr: ' + pre_err.strip()[:250]))
        return r
    if rc != 0:
        r.update(kind='probe-fails', detail=(post_err.strip().splitlines() or ['?'])[-1][:300])
        return r
    try:
        data = json.loads(post_out.strip().splitlines()[-1])
    except Exception as e:
        r.update(kind='probe-output', detail=repr(e))
        return r
    r['states'] = data['states']
    r['probe'] = data['probe']
    allow = control_delta()
    if allow is not None and data.get('world_delta') != allow:
        wd = data.get('world_delta') or {}
        keys = sorted(k for k in set(wd) | set(allow) if wd.get(k) != allow.get(k))
        r.update(kind='import-changes-interpreter-state',
                 detail=f'importing changed {keys}: ' + '; '.join(f'{k}: {str(wd.get(k))[:160]}' for k in keys[:2]))
        return r
    for k, (a, b, c) in data['probe'].items():
        if a != b and not k.endswith('|api'):
            r.update(kind='bs4-vs-soupsieve', detail=f'{k}: BeautifulSoup.select -> {a}, soupsieve.select -> {b}')
            return r
    r['kind'] = 'ok'
    return r


def first_kind(stmts):
    return 'bs4-first' if stmts and 'bs4' in stmts[0].split()[1] else 'soupsieve-first'


def run_shard(desc):
    tier, i, n = desc
    res = shard.Result()
    seqs = sequences(tier)
    probes = {}
    edges = set()
    for si in range(i, len(seqs), n):
        r = run_sequence(seqs[si])
        res.evaluations += 1
        res.count('transitions', len(seqs[si]))
        if r['kind'] == 'ok':
            key = json.dumps(r['probe'], sort_keys=True)
            probes.setdefault(key, []).append(seqs[si])
            res.outcome('ok')
            res.nontrivial += 1
            prev = ()
            for st, stmt in zip(r['states'], r['stmts']):
                edges.add((prev, stmt, tuple(st)))
                prev = tuple(st)
        else:
            res.outcome(r['kind'])
            res.fail({'seq': list(seqs[si])}, {'kind': r['kind'], 'first': first_kind(r['stmts']),
                                             'star': any('*' in s for s in r['stmts']) and 'bs4' not in r['detail']},
                     f'{"; ".join(r["stmts"])}: {r["kind"]}: {r["detail"]}')
        if si % 37 == 0 and r['kind'] == 'ok':
            res.sample({'program': r['stmts'], 'modules_after_each': [len(s) for s in r['states']]})
    res.extra['probes_%d' % i] = {k: v[0] for k, v in probes.items()}
    res.extra['states_%d' % i] = sorted({e[2] for e in edges} | {()})
    res.extra['edges_%d' % i] = len(edges)
    return res


def replay(case):
    r = run_sequence(tuple(case['seq']))
    if r['kind'] != 'ok':
        return {'kind': r['kind'], 'first': first_kind(r['stmts'])}, r['detail']
    if 'ref_seq' in case:
        r2 = run_sequence(tuple(case['ref_seq']))
        if r2['kind'] == 'ok' and r2['probe'] != r['probe']:
            diff = [k for k in r['probe'] if r['probe'][k] != r2['probe'].get(k)]
            return {'kind': 'probe-differs-between-import-orders'}, f'{r["stmts"]} vs {r2["stmts"]}: {diff[:3]}'
    return None


def check(tier, seed):
    res, info = shard.run(__name__, shards(tier, seed), order_seed=seed)
    probes = {}
    states = set()
    edges = 0
    for k, v in list(res.extra.items()):
        if k.startswith('probes_'):
            for pk, seq in v.items():
                probes.setdefault(pk, seq)
        elif k.startswith('states_'):
            states |= {tuple(s) for s in v}
        elif k.startswith('edges_'):
            edges += v
    for k in [k for k in res.extra if k.startswith(('probes_', 'states_', 'edges_'))]:
        del res.extra[k]
    if len(probes) > 1:
        items = sorted(probes.items(), key=lambda kv: kv[1])
        ref_key, ref_seq = items[0]
        ref = json.loads(ref_key)
        for pk, seq in items[1:]:
            cur = json.loads(pk)
            diff = [k for k in ref if ref[k] != cur.get(k)]
            res.fail({'seq': list(seq), 'ref_seq': list(ref_seq)},
                     {'kind': 'probe-differs-between-import-orders', 'first': first_kind([MENU[i] for i in seq])},
                     f'{[MENU[i] for i in seq]} gives different selection results than {[MENU[i] for i in ref_seq]}: e.g. {diff[0]}: {cur.get(diff[0])} vs {ref[diff[0]]}')
    cov = {
        'states': max(len(states), 1), 'transitions': max(res.counters.get('transitions', 0), 1),
        'traces_validated_against_impl': res.evaluations, 'evaluations': res.evaluations,
        'rule': ('states = distinct sets of loaded bs4*/soupsieve* modules observed after a statement; transitions = import statements executed; every '
                 'sequence is a real program run in a fresh interpreter; non-trivial = sequences that imported silently and produced a probe result'),
        'max_sequence_length': 2 if tier == 'quick' else 3, 'menu': MENU, 'distinct_probe_outputs': len(probes), 'distinct_edges': edges,
        'exhaustive': not info['cap_hit'],
    }
    return {'result': res, 'coverage': cov, 'info': info,
            'assumptions': ['Beautiful Soup 4.15 as installed in /venv; the probe covers 4 parsers x 16 selectors', 'fresh interpreter = new process, empty cwd, no site customisation beyond /venv']}
