ENGINES = [
    {'name': 'E1 small-scope differential exploration', 'path': 'vf/engine/shard.py', 'serves_properties': [],
     'kind_free_text': 'bounded-exhaustive enumeration of (tree, selector, argument) tuples executed on the real code, each checked against a reference model or a relational oracle; sharded over 16 processes'},
]
NOTES = ('All checks run /venv/bin/python with PYTHONPATH=/repo PYTHONHASHSEED=0 and import the working tree afresh; '
         'VERIF_REPO=<dir> points them at another checkout (used for seeded changes). known_findings.json lists open and fixed defects.')
NOT_APPLICABLE = {}
CHECKS = {
    'C10': {
        'engine': 'E1', 'level': 'exploration', 'design_ref': 'DESIGN.md §3 C10',
        'technique': 'bounded-exhaustive enumeration of strings (all code points x 7 contexts; all words <=3 over 14 chars) on the real escape()/parser, against an independent CSS identifier model and a decoy document',
        'text': 'Every Unicode code point (thorough: all 1 114 112; quick: 0-0x2FFF, every class boundary, astral picks) in seven positions, plus all short words over a 14-character alphabet of troublemakers, is escaped, re-read by an independent CSS-Syntax identifier consumer and by soupsieve, and used to select among decoys. Exhaustive over the stated space; says nothing about longer strings mixing more than three special characters.',
        'note': 'bs4 stores attribute values verbatim for API-built documents; the reference identifier consumer (vf/ref/ident.py) is trusted; surrogates are expected to round-trip unchanged as the property states.',
    },
}

CHECKS.update({
    'C01': {
        'engine': 'E1', 'level': 'exploration', 'design_ref': 'DESIGN.md §3 C01',
        'technique': 'bounded-exhaustive enumeration of (tree, selector, call target) triples executed on the real select(), differential against an independent three-valued reference matcher',
        'text': 'All forests of <=3 (thorough 4, and 5 without interleavings) elements over {a,b} x interleavings of text/comment/CDATA/PI/non-CSS-whitespace nodes x all selector chains of <=3 compounds over type + the eight structural pseudo-classes, :not/:is/:where/:matches/:has lists nested to depth 2, and the attribute/id/class layer (7 operators x i/s flags x value menu), on API-built HTML and XML soups and re-materialised through html.parser, lxml, html5lib and lxml-xml. Exhaustive inside those bounds; nothing is claimed for larger trees, deeper nesting or non-ASCII names.',
        'note': 'trusts vf/ref/css.py (validated against the repository test triples in vf.selftest); :root is not asserted for detached targets or documents with several top-level elements / top-level text.',
    },
    'C02': {
        'engine': 'E1', 'level': 'exploration', 'design_ref': 'DESIGN.md §3 C02',
        'technique': 'bounded-exhaustive enumeration of (A,B) x spellings x pseudo-class x of-S filter x sibling rows/interleavings/contexts on the real matcher, against direct An+B arithmetic',
        'text': 'Every (A,B) in [-3,3]x[-4,4] (thorough [-4,4]x[-7,7] plus +-10, +-100, +-1000) in every spelling the grammar admits, the four pseudo-classes and six of-S filters, against every sibling row of 0..4 (thorough 6) elements with text/comment/CDATA interleavings, as children of an element, of the document object, and as a parentless element; plus keyword equivalences. The verdict depends only on (A, B, position, row length), whose sign/zero/order cases are all realised inside the box.',
        'note': 'trusts solve_nth (closed-form arithmetic) in vf/ref/css.py; rows use element names a/b and class c only.',
    },
    'C03': {
        'engine': 'E1', 'level': 'exploration', 'design_ref': 'DESIGN.md §3 C03',
        'technique': 'bounded-exhaustive enumeration of (tree, call target, selector, entry point, limit, argument combination) on the real API, against the reference relation and coherence equations',
        'text': 'Every tree of <=3 (thorough 4) elements x every call target (document, each element, a parentless copy of each subtree) x a 130-selector pool with every placement of :scope and & x {select, iselect, select_one, match, filter(tag), filter(list), filter(generator), closest} x limits {-2..3, 10}; and every module-level function against compile(pattern, namespaces, flags, custom=custom).method over all combinations of namespaces/flags/custom passed positionally or by keyword.',
        'note': 'filter(iterable) is judged item by item as match(item) judges it; trusts vf/ref/css.py.',
    },
})
