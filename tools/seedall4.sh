#!/bin/bash
cd /verif
mkdir -p /tmp/seedresults4
for d in seeded/C*-w3*; do
  id=$(basename $d); prop=${id%%-*}
  tools/seedrun.py $d $prop > /tmp/seedresults4/$id.json 2>&1
  echo "$id $(grep -m1 '"exit"' /tmp/seedresults4/$id.json) $(grep -m1 '"tests"' /tmp/seedresults4/$id.json) demo=$(grep -m1 'demo_with_patch_exit' /tmp/seedresults4/$id.json)/$(grep -m1 'demo_clean_exit' /tmp/seedresults4/$id.json)"
done
