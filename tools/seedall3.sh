#!/bin/bash
# every seeded change (both waves) against the check of its property; results in /tmp/seedresults3
cd /verif
mkdir -p /tmp/seedresults3
for d in seeded/C*; do
  id=$(basename $d); prop=${id%%-*}
  tools/seedrun.py $d $prop --no-tests > /tmp/seedresults3/$id.json 2>&1
  echo "$id $(grep -m1 '"exit"' /tmp/seedresults3/$id.json)"
done
