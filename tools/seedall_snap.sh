#!/bin/bash
# regression of every seeded change against a SNAPSHOT of the checks (so that /verif can be edited while it runs);
# usage: tools/seedall_snap.sh <results_dir> [glob] [tests]   (snapshot is taken now, into /tmp/verif_snap.<pid>, and removed at the end)
out=${1:-/tmp/seedresults_snap}
glob=${2:-C*}
notests=--no-tests; [ "$3" = tests ] && notests=
snap=/tmp/verif_snap.$$
mkdir -p $out
rsync -a --exclude .git --exclude replays --exclude seeded /verif/ $snap/
cd /verif
for d in seeded/$glob; do
  id=$(basename $d); prop=${id%%-*}
  VERIF_HOME=$snap tools/seedrun.py $d $prop $notests > $out/$id.json 2>&1
  echo "$id $(grep -m1 '"exit"' $out/$id.json) $(grep -m1 '"tests"' $out/$id.json) demo=$(grep -m1 demo_with_patch_exit $out/$id.json)/$(grep -m1 demo_clean_exit $out/$id.json)"
done
rm -rf $snap
