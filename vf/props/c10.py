"""C10 — escape() output always parses back to the original identifier.

Space: every code point (quick: the whole BMP + astral picks, nine contexts below U+3000 and five above; thorough: all 0x110000 in
nine contexts (alone, before a letter, before a digit, after '-', after '-' and before a hex letter, interior before a
digit, interior before a space) plus all words of length <= 3 over a 14-character alphabet.
Oracle: (1) escape does not raise; (2) an independent CSS-Syntax identifier consumer (vf/ref/ident.py) consumes the whole
output and yields s' (s with NUL -> U+FFFD); (3) soupsieve's own parser yields s' for '#'+esc, '.'+esc, '[a='+esc+']';
(4) on a document holding the target and three decoys, each form selects exactly the target, and 'p#'+esc+'.k' still
selects exactly the p with class k.
"""
from __future__ import annotations
import itertools
from ..engine import shard
from ..ref import ident as ref

ID = 'C10'
LEVEL = 'exploration'
ALPHA = ['\x00', '\x01', '\x1f', ' ', '-', '0', '9', 'a', '_', '\x7f', '\x80', '\x9f', '\xa0', '\U0001F600', '\ud83d', '\ude0d', '\ufffd', '\n', '\r']
CSS_WS = set(' \t\n\r\f')


def contexts(c, full=True):
    core = [c, c + 'a', '-' + c, 'a' + c + '0', 'name' + c]
    if not full:
        return core            # quick tier above U+2FFF: the five core positions
    return core + [c + '1', '-' + c + 'f', 'a' + c + ' b', '_x-1' + c]


def quick_codepoints():
    cps = set(range(0, 0x10000))
    for b in (0x300, 0x7ff, 0x800, 0xd7ff, 0xd800, 0xdbff, 0xdc00, 0xdfff, 0xe000, 0xfffd, 0xfffe, 0xffff,
              0x10000, 0x1f600, 0x10ffff, 0x2028, 0x2029, 0xfeff, 0x85, 0x1680, 0x2000, 0x3000):
        for d in (-1, 0, 1):
            if 0 <= b + d <= 0x10ffff:
                cps.add(b + d)
    for k in range(64):
        cps.add(0x10000 + k * 0x4001 % 0x100000)
    return sorted(cps)


def shards(tier, seed):
    out = []
    if tier == 'quick':
        cps = quick_codepoints()
        n = 128
        for i in range(n):
            out.append(('cps', cps[i::n]))
    else:
        step = 0x2000
        for lo in range(0, 0x110000, step):
            out.append(('range', lo, min(lo + step, 0x110000)))
    for a in ALPHA:
        out.append(('words', a))
    return out


def char_class(c):
    o = ord(c)
    if o == 0:
        return 'NUL'
    if o < 0x20:
        return 'C0'
    if o == 0x7f:
        return 'DEL'
    if 0x80 <= o <= 0x9f:
        return 'C1'
    if c in ' ':
        return 'space'
    if c.isascii() and c.isdigit():
        return 'digit'
    if c == '-':
        return 'dash'
    if c == '_' or (c.isascii() and c.isalpha()):
        return 'alpha'
    if o < 0x80:
        return 'ascii-punct'
    if 0xd800 <= o <= 0xdfff:
        return 'surrogate'
    if o > 0xffff:
        return 'astral'
    return 'non-ascii'


def sig_for(kind, form, s):
    return {'kind': kind, 'form': form, 'classes': '+'.join(sorted({char_class(c) for c in s})) or 'empty'}


class Env:
    """One reusable document per worker: target + three decoys, attributes rewritten per case."""

    def __init__(self):
        import bs4
        self.soup = bs4.BeautifulSoup('<div><p class="k"><u></u></p><p><u></u></p><p></p><p></p><i></i><b></b></div>', 'html.parser')
        self.ps = self.soup.find_all('p')
        self.i = self.soup.find('i')
        self.b = self.soup.find('b')      # carries the class as a plain STRING (as XML trees do)

    def set(self, s1):
        # decoys: suffixed, prefixed, truncated; and (when the value holds U+FFFD) the same text with a raw NUL instead, which must NOT be selected
        near = s1.replace('\ufffd', '\x00') if '\ufffd' in s1 else s1[:-1]
        vals = [s1, s1 + 'x', 'x' + s1, near]
        for p, v in zip(self.ps, vals):
            p['id'] = v
            p['a'] = v
            if v and not (set(v) & CSS_WS):
                p['class'] = [v, 'k'] if p is self.ps[0] else [v]
            else:
                p['class'] = ['k'] if p is self.ps[0] else []
        # an <i> carrying the same id/class/attribute but a different type: 'p#..' must not pick it
        self.i['id'] = s1
        self.i['a'] = s1
        if s1 and not (set(s1) & CSS_WS):
            self.b['class'] = s1 + ' k2'
        else:
            self.b['class'] = 'k2'


def check_string(sv, env, s, res):
    """Returns None or (sig, detail)."""
    if s == '':
        res.unspecified += 1
        return None
    s1 = s.replace('\x00', '�')
    try:
        with shard.deadline(10):
            esc = sv.escape(s)
    except shard.CaseTimeout:
        return sig_for('timeout', 'escape', s), f'escape({s!r}) did not return'
    except Exception as e:
        return sig_for('raise', 'escape', s), f'escape({s!r}) raised {e!r}'
    res.evaluations += 1
    if esc != s:
        res.nontrivial += 1
    res.outcome('escaped' if esc != s else 'verbatim')
    # (2) independent identifier model
    got = ref.consume_ident(esc)
    if got is None or got[1] != len(esc.replace('\x00', '�')) or got[0] != s1:
        return sig_for('ident-model', 'escape', s), f'escape({s!r}) = {esc!r}: CSS identifier consumer gives {got!r}, want {s1!r}'
    env.set(s1)
    target = env.ps[0]
    has_class = bool(s1) and not (set(s1) & CSS_WS)
    forms = [('#', '#' + esc, [target, env.i]), ('[a=]', '[a=' + esc + ']', [target, env.i]),
             ('compound', 'p#' + esc + '.k', [target]),
             # whatever follows the escaped identifier (a descendant combinator, the i flag) must not be swallowed by it
             ('#desc', '#' + esc + ' u', [target.u]), ('[a= i]', '[a=' + esc + ' i]', [target, env.i])]
    if has_class:
        forms.append(('.', '.' + esc, [target, env.b]))
        forms.append(('.string', 'b.' + esc + '.k2', [env.b]))
    for form, pat, want in forms:
        try:
            with shard.deadline(10):
                c = sv.compile(pat)
                sel = c.selectors[0]
                if form == '#':
                    parsed = sel.ids
                elif form in ('.', '.string'):
                    parsed = sel.classes
                elif form == 'compound':
                    parsed = (sel.tag.name, sel.ids, sel.classes)
                elif form == '#desc':
                    parsed = (sel.tag.name, sel.relation[0].ids if len(sel.relation) else None)
                elif form == '[a= i]':
                    parsed = (sel.attributes[0].attribute, bool(sel.attributes[0].pattern.flags & 2))
                else:
                    parsed = (sel.attributes[0].attribute,)
                got_sel = c.select(env.soup)
        except shard.CaseTimeout:
            return sig_for('timeout', form, s), f'{pat!r} did not finish'
        except Exception as e:
            return sig_for('parse-raise', form, s), f'{pat!r} (from escape({s!r})) raised {type(e).__name__}: {str(e)[:120]}'
        res.evaluations += 1
        if form == '#' and parsed != (s1,):
            return sig_for('parse', form, s), f'{pat!r} parsed ids {parsed!r}, want {(s1,)!r}'
        if form == '.string':
            parsed = (s1,) if parsed == (s1, 'k2') else parsed
        if form in ('.', '.string') and parsed != (s1,):
            return sig_for('parse', form, s), f'{pat!r} parsed classes {parsed!r}, want {(s1,)!r}'
        if form == 'compound' and parsed != ('p', (s1,), ('k',)):
            return sig_for('parse', form, s), f'{pat!r} parsed {parsed!r}: escape output leaked into the surrounding selector'
        if form == '#desc' and parsed != ('u', (s1,)):
            return sig_for('parse', form, s), f'{pat!r} parsed {parsed!r}: the descendant combinator after the escaped identifier was lost'
        if form == '[a= i]' and parsed != ('a', True):
            return sig_for('parse', form, s), f'{pat!r} parsed {parsed!r}: the i flag after the escaped identifier was lost'
        if form == '[a=]' and parsed != ('a',):
            return sig_for('parse', form, s), f'{pat!r} parsed attribute {parsed!r}'
        if len(got_sel) != len(want) or any(a is not b for a, b in zip(got_sel, want)):
            return sig_for('select', form, s), (f'{pat!r} selected {[str(x)[:60] for x in got_sel]}, '
                                                 f'want exactly the element(s) whose value is {s1!r}')
    return None


def run_shard(desc):
    from .. import common
    sv = common.bind()
    res = shard.Result()
    env = Env()
    if desc[0] == 'cps':
        strings = itertools.chain.from_iterable(contexts(chr(cp), cp < 0x3000 or cp > 0xffff) for cp in desc[1])
    elif desc[0] == 'range':
        strings = itertools.chain.from_iterable(contexts(chr(cp)) for cp in range(desc[1], desc[2]))
    else:
        first = desc[1]
        strings = itertools.chain([first], (first + b for b in ALPHA),
                                  (first + b + c for b in ALPHA for c in ALPHA))
    n = 0
    for s in strings:
        n += 1
        if n % 100 == 0:
            sv.purge()
        f = check_string(sv, env, s, res)
        if f:
            kind = f[0]['kind']
            scratch = shard.Result()

            def still(chars, kind=kind):
                g = check_string(sv, env, ''.join(chars), scratch)
                return bool(g) and g[0]['kind'] == kind
            s = ''.join(shard.shrink_seq(list(s), still))
            f = check_string(sv, env, s, scratch)
            res.fail({'s': [ord(c) for c in s]}, f[0], f[1])
        elif n % 997 == 1:
            res.sample({'s': s.encode('unicode_escape').decode(), 'escape': sv.escape(s).encode('unicode_escape').decode()})
    return res


def replay(case):
    from .. import common
    sv = common.bind()
    s = ''.join(chr(o) for o in case['s'])
    return check_string(sv, Env(), s, shard.Result())


def check(tier, seed):
    sh = shards(tier, seed)
    res, info = shard.run(__name__, sh, order_seed=seed)
    cps = sum(len(d[1]) for d in sh if d[0] == 'cps') + sum(d[2] - d[1] for d in sh if d[0] == 'range')
    cov = {
        'rule': ('every enumerated string s (code point x 7 contexts; all words <=3 over 14 chars) is escaped, re-read by an '
                 'independent CSS identifier consumer and by soupsieve, and used to select among decoys; a case is '
                 'non-trivial when escape(s) != s; strings are distinct by construction'),
        'exhaustive': not info['cap_hit'],
        'code_points_covered': cps,
        'all_code_points': cps == 0x110000,
        'word_alphabet': [c.encode('unicode_escape').decode() for c in ALPHA],
    }
    return {'result': res, 'coverage': cov, 'info': info,
            'assumptions': ['documents built through the bs4 API on an html.parser soup (attribute values stored verbatim)',
                            "'.'+escape(s) only asserted when s has no CSS whitespace; s == '' not asserted (no empty identifier in CSS)",
                            'literal surrogates are expected to round-trip unchanged (property text), unlike CSS Syntax 3.3 preprocessing']}
