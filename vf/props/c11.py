"""C11 — name and value case rules follow the document type.

Space (complete in quick): one logical tree materialised as HTML (html.parser, lxml, html5lib, API with mixed-case names),
XHTML (lxml-xml with the XHTML namespace), XML (lower-case and mixed-case names) x every ASCII case variant of every
tag name, attribute name, attribute value, class and id in the selector x 7 operators x {none, i, s}; plus every
HTML-only pseudo-class against elements that would match it in HTML, placed in XML documents that are not XHTML
(including XHTML-namespaced elements under a non-XHTML root).
Oracle: vf/ref/css.py case rules (HTML: names fold, values exact except type; XML/XHTML: everything exact; i folds, s exact)
and "HTML-only pseudo-classes select nothing in XML that is not XHTML".
"""
from __future__ import annotations
import itertools
import warnings
from ..engine import shard
from ..gen import trees as T, selectors as S
from ..ref import css as R
from . import _sel

ID = 'C11'
LEVEL = 'exploration'
XHTML = 'http://www.w3.org/1999/xhtml'
OPS = ('=', '~=', '|=', '^=', '$=', '*=', '!=')


def variants(word):
    outs = set()
    letters = [(c.lower(), c.upper()) if c.isalpha() else (c,) for c in word]
    for combo in itertools.product(*letters):
        outs.add(''.join(combo))
    return sorted(outs)


BODY = '<abcdefghijklm-nopqrstuvwxyz zy="Q">z</abcdefghijklm-nopqrstuvwxyz><ab k="Vx" type="Tx" class="Cc" id="Id">t</ab><ab k="vx" type="tx" class="cc">u</ab><cd k="VX" type="TX"></cd><ab k="Vx-y" type="Tx z"></ab>'
BODY_MIXED = BODY.replace('<ab ', '<Ab ').replace('</ab>', '</Ab>').replace(' k=', ' K=').replace(' type=', ' Type=')


def documents():
    import bs4
    docs = []
    with warnings.catch_warnings():
        warnings.simplefilter('ignore')
        for parser in ('html.parser', 'lxml', 'html5lib'):
            docs.append(('html/' + parser, bs4.BeautifulSoup('<div>' + BODY + '</div>', parser)))
            docs.append(('html-mixed-source/' + parser, bs4.BeautifulSoup('<div>' + BODY_MIXED + '</div>', parser)))
        docs.append(('xhtml', bs4.BeautifulSoup('<html xmlns="%s"><body>%s</body></html>' % (XHTML, BODY), 'xml')))
        docs.append(('xhtml-mixed', bs4.BeautifulSoup('<html xmlns="%s"><body>%s</body></html>' % (XHTML, BODY_MIXED), 'xml')))
        docs.append(('xml', bs4.BeautifulSoup('<r>' + BODY + '</r>', 'xml')))
        docs.append(('xml-mixed', bs4.BeautifulSoup('<r>' + BODY_MIXED + '</r>', 'xml')))
    # API-built trees keep mixed-case names even in an HTML soup
    kid = lambda name, attrs: ('e', name, tuple(attrs), ())
    forest = (('e', 'div', (), (kid('Ab', (('K', 'Vx'), ('Type', 'Tx'), ('Class', ('Cc',)), ('ID', 'Id'))), kid('ab', (('k', 'vx'), ('type', 'tx'))),
                                kid('AB', (('k', 'VX'), ('TYPE', 'TX'))))),)
    docs.append(('api-html-mixed', T.build_api(forest, False)))
    docs.append(('api-xml-mixed', T.build_api(forest, True)))
    # what html5lib builds: an HTML document whose elements carry the XHTML namespace (the namespace-aware code paths with HTML case rules),
    # names stored in mixed case as html5lib does for foreign content
    docs.append(('api-html5-mixed', _sel.build(forest, 'api-html5')))
    with warnings.catch_warnings():
        warnings.simplefilter('ignore')
        docs.append(('html5lib-foreign', bs4.BeautifulSoup('<div><svg viewBox="0 0 1 1" K="Vx"><foreignObject Type="Tx"><ab k="vx">t</ab></foreignObject>'
                                                           '<linearGradient gradientUnits="Q" zy="Q"></linearGradient></svg><ab k="Vx"></ab></div>', 'html5lib')))
    return docs


def selectors():
    out = []
    for t in variants('ab') + variants('cd'):
        out.append((S.cx(S.cp(S.T(t))),))
    long = 'abcdefghijklm-nopqrstuvwxyz'
    for t in (long, long.upper(), long.title(), long[:13].upper() + long[13:], long[:-1] + 'Z', 'A' + long[1:]):
        out.append((S.cx(S.cp(S.T(t))),))
    # names html5lib stores in mixed case (adjusted SVG names): in an HTML document they fold like any other name
    for t in ('foreignobject', 'foreignObject', 'FOREIGNOBJECT', 'lineargradient', 'linearGradient'):
        out.append((S.cx(S.cp(S.T(t))),))
    for n in ('viewbox', 'viewBox', 'VIEWBOX', 'gradientunits', 'gradientUnits'):
        out.append((S.cx(S.cp(None, ('attr', None, n, None, None, None))),))
        out.append((S.cx(S.cp(None, ('attr', None, n, '^=', '0', None))),))
        out.append((S.cx(S.cp(None, ('attr', '*', n, None, None, None))),))
    for n in variants('zy'):
        out.append((S.cx(S.cp(None, ('attr', None, n, None, None, None))),))
        out.append((S.cx(S.cp(None, ('attr', None, n, '=', 'Q', None))),))
    for n in variants('k'):
        out.append((S.cx(S.cp(None, ('attr', None, n, None, None, None))),))
        for op in OPS:
            for v in variants('vx'):
                for flag in (None, 'i', 's'):
                    out.append((S.cx(S.cp(None, ('attr', None, n, op, v, flag))),))
    for n in variants('type'):
        out.append((S.cx(S.cp(None, ('attr', None, n, None, None, None))),))
        for op in OPS:
            for v in variants('tx'):
                for flag in (None, 'i', 's'):
                    out.append((S.cx(S.cp(None, ('attr', None, n, op, v, flag))),))
    # the same attribute reached through a namespace form of the selector: the case rules must not depend on the spelling
    for ns in ('*', ''):
        for n in ('type', 'TYPE'):
            for op in ('=', '^=', '$=', '*='):
                for v in variants('tx'):
                    for flag in (None, 'i', 's'):
                        out.append((S.cx(S.cp(None, ('attr', ns, n, op, v, flag))),))
        for v in variants('vx'):
            out.append((S.cx(S.cp(None, ('attr', ns, 'k', '=', v, None))),))
    for c in variants('cc'):
        out.append((S.cx(S.cp(None, ('class', c))),))
        out.append((S.cx(S.cp(S.T('AB'), ('class', c))),))
    for i in variants('id'):
        out.append((S.cx(S.cp(None, ('id', i))),))
    for n in variants('class'):
        out.append((S.cx(S.cp(None, ('attr', None, n, '~=', 'Cc', None))),))
    # compound: everything at once
    for t, n, v in itertools.product(variants('ab'), variants('k'), variants('vx')):
        out.append((S.cx(S.cp(S.T(t), ('attr', None, n, '=', v, None)), '~', S.cp(S.T('CD'))),))
    return out


HTML_ONLY = [':any-link', ':link', ':checked', ':default', ':indeterminate', ':disabled', ':enabled', ':required', ':optional',
             ':placeholder-shown', ':read-only', ':read-write', ':in-range', ':out-of-range', ':dir(ltr)', ':dir(rtl)', ':defined']
HTML_BODY = ('<form><a href="u">x</a><input type="checkbox" checked=""/><input type="radio" name="n"/><input type="submit"/>'
             '<input disabled=""/><input required="" placeholder="p"/><input type="number" min="1" max="3" value="2"/>'
             '<input type="number" min="1" value="0"/><textarea></textarea><p dir="rtl">x</p><p>y</p><select><option selected="">o</option></select></form>')


def html_only_documents():
    import bs4
    docs = []
    with warnings.catch_warnings():
        warnings.simplefilter('ignore')
        docs.append(('xml-plain', bs4.BeautifulSoup('<root>' + HTML_BODY + '</root>', 'xml'), False))
        pref = HTML_BODY.replace('</', '</h:').replace('<', '<h:').replace('<h:/h:', '</h:')
        docs.append(('xml-with-xhtml-namespaced-children',
                     bs4.BeautifulSoup('<root xmlns:h="%s">%s</root>' % (XHTML, pref), 'xml'), False))
        docs.append(('xml-atom-like-default-xhtml-inside',
                     bs4.BeautifulSoup('<feed xmlns="urn:feed"><content><div xmlns="%s">%s</div></content></feed>' % (XHTML, HTML_BODY), 'xml'), False))
        # positive controls: the same body as real HTML / XHTML must select something for most of them
        docs.append(('html-control', bs4.BeautifulSoup('<html><body>' + HTML_BODY + '</body></html>', 'html.parser'), True))
        docs.append(('xhtml-control', bs4.BeautifulSoup('<html xmlns="%s"><body>%s</body></html>' % (XHTML, HTML_BODY), 'xml'), True))
    return docs


NONASCII = [('é', 'É'), ('σ', 'Σ'), ('k', 'K'), ('ß', 'ẞ'), ('ı', 'I'), ('ǆ', 'ǅ'), ('s', 'ſ')]


def run_nonascii(sv, res):
    """HTML folds ASCII case only.  For every pair (x, X) of characters related by non-ASCII case mapping: an element/attribute named with X
    must not be matched by a selector spelled with x (and vice versa), in API-built HTML soups and in lxml/html5lib trees (which keep names)."""
    import bs4
    for lo, up in NONASCII:
        for a, b in ((lo, up), (up, lo)):
            if a.isascii() and b.isascii():
                continue
            forest = (('e', 'div', (), (('e', 'x-' + a, (('data-' + a, 'v'), ('k' + a, 'w')), ()), ('e', 'p', (('data-' + a, 'v'),), ()))),)
            soup = T.build_api(forest, False)
            tests = [(S.cx(S.cp(S.T('x-' + b))),), (S.cx(S.cp(None, ('attr', None, 'data-' + b, None, None, None))),),
                     (S.cx(S.cp(None, ('attr', None, 'k' + b, '=', 'w', None))),)]
            same = [(S.cx(S.cp(S.T('x-' + a))),), (S.cx(S.cp(None, ('attr', None, 'data-' + a, None, None, None))),)]
            for lst, expect_any in [(t, False) for t in tests] + [(t, True) for t in same]:
                text = S.render(lst)
                try:
                    got = sv.select(text, soup)
                except Exception as e:
                    res.fail({'layer': 'nonascii', 'pair': [a, b], 'text': text}, {'kind': 'raise', 'features': 'non-ascii-name'}, f'{text!r}: {e!r}')
                    continue
                res.evaluations += 1
                if bool(got) != expect_any:
                    res.fail({'layer': 'nonascii', 'pair': [a, b], 'text': text},
                             {'kind': 'mismatch', 'direction': 'extra' if got else 'missing', 'doc': 'api-html', 'features': 'non-ascii-case-pair'},
                             f'{text!r} on an HTML tree whose names are spelled with {a!r}: selected {[_sel.brief(x) for x in got]}; HTML folds ASCII case only')
                else:
                    res.outcome('ascii-only-folding')
                    res.nontrivial += 1 if expect_any else 0
    run_fold_sweep(sv, res)
    return res


def run_fold_sweep(sv, res):
    """The folding function itself, on EVERY code point (surrogates included): 'A'-'Z' map to 'a'-'z', everything else to itself, nothing raises.
    (A table, a codec round trip or str.lower() all differ from this somewhere.)"""
    low = getattr(getattr(sv, 'util', None), 'lower', None)
    if low is None:
        return
    bad = 0
    for cp in range(0x110000):
        ch = chr(cp)
        want = chr(cp + 32) if 0x41 <= cp <= 0x5a else ch
        res.evaluations += 1
        try:
            got = low('Q' + ch + 'q')
        except Exception as e:
            got = 'raise:' + type(e).__name__
        if got != 'q' + want + 'q':
            bad += 1
            if bad <= 3:
                res.fail({'layer': 'nonascii', 'pair': [ch, ch], 'text': 'lower:U+%04X' % cp},
                         {'kind': 'fold', 'direction': 'raises' if got.startswith('raise:') else 'wrong', 'features': 'ascii' if cp < 0x80 else ('surrogate' if 0xd800 <= cp <= 0xdfff else 'non-ascii')},
                         f'util.lower on U+{cp:04X} gives {got!r}, ASCII-only folding gives {"q" + want + "q"!r}')
            else:
                res.failure_count += 1
    res.nontrivial += 26


def shards(tier, seed):
    return [('case', i, 16) for i in range(16)] + [('htmlonly', 0, 1), ('nonascii', 0, 1)]


def sel_feature(lst):
    f = set()
    for x in lst:
        for c in x[1]:
            if c[1] is not None and c[1][1] != c[1][1].lower():
                f.add('tag-uppercase')
            for s in c[2]:
                if s[0] == 'attr':
                    if s[2] != s[2].lower():
                        f.add('attrname-uppercase')
                    if s[2].lower() == 'type':
                        f.add('type-attr')
                    if s[5]:
                        f.add('flag-' + s[5])
                    if s[3]:
                        f.add('op' + s[3])
                elif s[0] in ('class', 'id'):
                    f.add(s[0])
    return '+'.join(sorted(f))


def run_shard(desc):
    from .. import common
    sv = common.bind()
    warnings.simplefilter('ignore')
    res = shard.Result()
    if desc[0] == 'nonascii':
        return run_nonascii(sv, res)
    if desc[0] == 'htmlonly':
        for name, soup, control in html_only_documents():
            for p in HTML_ONLY:
                for text in (p, '*|*' + p, 'h|*' + p):
                    try:
                        got = sv.select(text, soup, namespaces={'h': XHTML})
                    except Exception as e:
                        res.fail({'layer': 'htmlonly', 'doc': name, 'selector': text}, {'kind': 'raise', 'pseudo': p}, f'{text!r} on {name}: {e!r}')
                        continue
                    res.evaluations += 1
                    if control:
                        if got:
                            res.nontrivial += 1
                        res.outcome('control-selects' if got else 'control-empty')
                    elif got:
                        res.fail({'layer': 'htmlonly', 'doc': name, 'selector': text}, {'kind': 'html-only-matched-in-xml', 'pseudo': p, 'doc': name},
                                 f'{text!r} selects {[_sel.brief(x) for x in got[:3]]} in a document that is XML but not XHTML ({name})')
                    else:
                        res.outcome('nothing-in-xml')
        return res
    _, i, n = desc
    docs = [(name, soup, R.Ctx(soup)) for name, soup in documents()]
    sels = selectors()
    if i == 0:
        res.count('selectors', len(sels))
        res.count('documents', len(docs))
    for si in range(i, len(sels), n):
        lst = sels[si]
        text = S.render(lst)
        for name, soup, ctx in docs:
            r = _sel.run_case(sv, soup, lst, ctx=ctx, text=text)
            res.evaluations += 1
            st = r['status']
            if st == 'ok':
                res.outcome('agree')
                if r['want']:
                    res.nontrivial += 1
            elif st == 'unspecified':
                res.unspecified += 1
            else:
                res.outcome(st)
                res.fail({'layer': 'case', 'doc': name, 'selector': lst, 'text': text},
                         {'kind': st, 'direction': r.get('direction', r.get('exc', '')), 'doc': name.split('/')[0], 'features': sel_feature(lst)},
                         f'[{name}] ' + r.get('detail', ''))
        if si % 397 == 0:
            res.sample({'selector': text, 'documents': [d[0] for d in docs]})
    return res


def replay(case):
    from .. import common
    sv = common.bind()
    warnings.simplefilter('ignore')
    if case['layer'] == 'nonascii':
        r = shard.Result()
        run_nonascii(sv, r)
        for f in r.failures:
            if f['case']['text'] == case['text']:
                return f['sig'], f['detail']
        return None
    if case['layer'] == 'htmlonly':
        for name, soup, control in html_only_documents():
            if name == case['doc']:
                got = sv.select(case['selector'], soup, namespaces={'h': XHTML})
                return ({'kind': 'html-only-matched-in-xml'}, f'{got!r}') if got else None
        return None
    lst = _sel.tup(case['selector'])
    for name, soup in documents():
        if name == case['doc']:
            r = _sel.run_case(sv, soup, lst, text=case['text'])
            if r['status'] in ('ok', 'unspecified'):
                return None
            return {'kind': r['status'], 'direction': r.get('direction', '')}, r.get('detail', '')
    return None


def check(tier, seed):
    res, info = shard.run(__name__, shards(tier, seed), order_seed=seed)
    cov = {
        'rule': ('every case variant of every name/value in the selector grammar x every materialisation of the logical tree, compared with the '
                 'reference case rules; every HTML-only pseudo-class on XML documents that are not XHTML (must select nothing) with HTML and XHTML '
                 'positive controls; non-trivial = the reference (or the control) selects at least one element'),
        'exhaustive': not info['cap_hit'], 'complete_in_quick': True, 'html_only_pseudo_classes': HTML_ONLY,
    }
    return {'result': res, 'coverage': cov, 'info': info,
            'assumptions': ['ASCII letters only (the property says ASCII case)', 'class and id selectors compare case-sensitively in every document type (no quirks mode)']}
