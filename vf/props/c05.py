"""C05 — selector lists and logical pseudo-classes form a Boolean algebra.

Space: every ordered pair (A, B) of a pool of complex selectors that covers every pseudo-class name the parser accepts
(the pool is compared with the parser's own tables; names the pool does not know are added automatically), x namespace
maps {none, prefixes only, with a default namespace} x five rich documents (forms, links/lang/dir, iframe, inline
SVG/MathML/custom elements, structure) materialised by html.parser, lxml, html5lib, as XHTML and as plain XML.
Oracle (soupsieve's own answers, as lists of element identities in document order; U = '*' under the same map):
  'A, B' = A u B;  ':is(A, B)' = ':is(A)' u ':is(B)' (= 'A, B' without a default namespace);  ':not(A)' = U \\ ':is(A)';
  ':not(A, B)' = U \\ ':is(A, B)';  'X:is(A)' = X n ':is(A)';  :where == :matches == :is;  L subset-of 'L, C'.
"""
from __future__ import annotations
import warnings
from ..engine import shard
from . import _docs

ID = 'C05'
LEVEL = 'exploration'

POOL = [
    'p', '*', 'input', 'li', 'div', 'span', 'svg|circle', 'svg|*', '*|a', '|p', 'html|p', 'p.c', '.c', '.a.b', '#p1', '#i2', '[id]', '[href]',
    '[type=text]', '[type="TEXT"]', '[title|=t i]', '[class~=a]', '[id^=i]', '[xlink|href]', '[*|href]', '[lang]', '[dir=auto]',
    'div p', 'div > p', 'li + li', 'li ~ li', 'ul > li:first-child', 'form input', 'fieldset > legend input', 'body > div *',
    ':root', ':empty', ':first-child', ':last-child', ':only-child', ':first-of-type', ':last-of-type', ':only-of-type',
    ':nth-child(2n+1)', ':nth-last-child(2)', ':nth-of-type(2)', ':nth-last-of-type(-n+2)', ':nth-child(2 of .a)',
    ':nth-last-child(1 of li, .c)', 'li:nth-child(odd)',
    ':not(p)', ':not(.c, li)', ':is(p, li)', ':where(.c)', ':matches(div, span)', ':is()', ':not(:is(.a))',
    ':has(> li)', ':has(+ p)', ':has(~ input)', ':has(span)', ':not(:has(*))', 'div:has(> p, > ul)',
    ':link', ':any-link', ':checked', ':default', ':indeterminate', ':disabled', ':enabled', ':required', ':optional',
    ':read-only', ':read-write', ':in-range', ':out-of-range', ':placeholder-shown', ':defined', ':scope', ':scope > *', '& *',
    ':dir(ltr)', ':dir(rtl)', 'p:dir(ltr)', ':lang(en)', ':lang("*-DE")', ':lang("")', ':lang(fr, de)',
    ':-soup-contains(t)', ':-soup-contains-own("e", "x")', ':contains(beta)', 'p:-soup-contains("alpha"):-soup-contains-own(" ")',
    ':active', ':current', ':focus', ':focus-visible', ':focus-within', ':future', ':host', ':hover', ':local-link', ':past',
    ':paused', ':playing', ':target', ':target-within', ':user-invalid', ':visited',
    ':current(p)', ':host(div)', ':host-context(p)',
    ':--hdr', ':--in', 'div :--hdr', ':not(:--in)',
    'input:not(:disabled):not([type=hidden])', 'form :default:not(:checked)', ':is(:enabled, :disabled)', 'iframe p', 'iframe *',
    'option:checked', 'fieldset:disabled input', '#before:lang(en)', '#inner:lang(en)', '#after:lang(en)', '#inner', '#o p', '#o em', 'iframe em', ':not(:dir(ltr))', ':not(:defined)', ':not(:lang(en))', ':not(:checked, :default)',
]
CUSTOM = {':--hdr': 'h1, h2', ':--in': 'input:not([type=hidden])'}
MAPS = {
    'none': None,
    'prefixes': {'svg': _docs.SVG, 'xlink': _docs.XLINK, 'html': _docs.XHTML},
    'default': {'': _docs.XHTML, 'svg': _docs.SVG, 'xlink': _docs.XLINK, 'html': _docs.XHTML},
}
XS = ['p', '[id]', ':first-child', 'svg|*']
SPECIAL_HINT = (':', 'svg|', 'html|', 'xlink|', '|', 'iframe')


def pool(sv):
    """POOL plus any pseudo-class name of the parser tables it does not mention."""
    cp = sv.css_parser
    names = set()
    for attr in ('PSEUDO_SIMPLE', 'PSEUDO_SIMPLE_NO_MATCH', 'PSEUDO_COMPLEX', 'PSEUDO_COMPLEX_NO_MATCH', 'PSEUDO_SPECIAL'):
        names |= set(getattr(cp, attr, ()))
    text = ' '.join(POOL)
    simple = set(getattr(cp, 'PSEUDO_SIMPLE', ())) | set(getattr(cp, 'PSEUDO_SIMPLE_NO_MATCH', ()))
    extra, unknown = [], []
    for n in sorted(names):
        if n + '(' in text or (n + ' ') in (text + ' ') or text.endswith(n) or (n + ')') in text or (n + ':') in text or (n + ',') in text:
            continue
        if n in simple:
            extra.append(n)
        else:
            unknown.append(n)
    return POOL + extra, extra, unknown


def special(a):
    return any(h in a for h in SPECIAL_HINT)


def pairs(tier, P):
    out = []
    n = len(P)
    for i in range(n):
        for j in range(n):
            if tier == 'quick':
                # at least one HTML-only / state / namespaced / custom member, thinned to every 3rd partner
                if not (special(P[i]) and (j % 3 == i % 3)):
                    continue
            out.append((i, j))
    return out


def doc_list(tier):
    kinds = _docs.KINDS
    names = list(_docs.MARKUPS)
    if tier == 'quick':
        return [(n, k) for n in names for k in kinds if (n, k) in {
            ('forms', 'html.parser'), ('forms', 'xhtml'), ('links', 'html5lib'), ('links', 'xml'), ('iframe', 'html.parser'),
            ('foreign', 'html5lib'), ('foreign', 'xhtml'), ('struct', 'lxml'), ('iframe-meta', 'html.parser')}]
    return [(n, k) for n in names for k in kinds]


def shards(tier, seed):
    n = 64 if tier == 'quick' else 192
    return [(tier, i, n) for i in range(n)]


_DOCS = {}


def docs(tier):
    if tier not in _DOCS:
        out = []
        for name, kind in doc_list(tier):
            soup = _docs.build(name, kind)
            order = {id(e): k for k, e in enumerate(soup.find_all(True))}
            out.append((name, kind, soup, order))
        _DOCS[tier] = out
    return _DOCS[tier]


class Sel:
    """select() with per-(text, map, doc) memo inside one worker; results as tuples of document-order indexes."""

    def __init__(self, sv):
        self.sv = sv
        self.memo = {}

    def __call__(self, text, mapname, di, soup, order):
        key = (text, mapname, di)
        r = self.memo.get(key)
        if r is None:
            c = self.sv.compile(text, MAPS[mapname], custom=CUSTOM)
            got = c.select(soup)
            r = tuple(order.get(id(e), -1) for e in got)
            if len(self.memo) > 400000:
                self.memo.clear()
            self.memo[key] = r
        return r


def laws(sel, A, B, mapname, di, soup, order):
    """Yield (law, lhs_text, got, want) for every violated law."""
    s = lambda t: sel(t, mapname, di, soup, order)
    U = s('*')
    a, b = s(A), s(B)
    union = tuple(sorted(set(a) | set(b)))
    ab = s(f'{A}, {B}')
    if ab != union:
        yield ('list-union', f'{A}, {B}', ab, union)
    isa, isb = s(f':is({A})'), s(f':is({B})')
    isab = s(f':is({A}, {B})')
    un2 = tuple(sorted(set(isa) | set(isb)))
    if isab != un2:
        yield ('is-union', f':is({A}, {B})', isab, un2)
    if MAPS[mapname] is None or '' not in MAPS[mapname]:
        if isab != ab:
            yield ('is-equals-list', f':is({A}, {B})', isab, ab)
    nota = s(f':not({A})')
    comp = tuple(x for x in U if x not in set(isa))
    if nota != comp:
        yield ('not-complement', f':not({A})', nota, comp)
    notab = s(f':not({A}, {B})')
    comp2 = tuple(x for x in U if x not in set(isab))
    if notab != comp2:
        yield ('not-list-complement', f':not({A}, {B})', notab, comp2)
    for nm in ('where', 'matches'):
        w = s(f':{nm}({A}, {B})')
        if w != isab:
            yield (nm + '-equals-is', f':{nm}({A}, {B})', w, isab)
    # with a default namespace a top-level ':is(A)' carries an implied universal restricted to that namespace, so the
    # namespace-neutral '*|*:is(A)' is the operand that the compound law is about
    isa_any = set(s(f'*|*:is({A})'))
    for X in XS:
        x = s(X)
        xi = s(f'{X}:is({A})')
        want = tuple(k for k in x if k in isa_any)
        if xi != want:
            yield ('compound-intersection', f'{X}:is({A})', xi, want)
    if MAPS[mapname] is not None and '' in MAPS[mapname]:
        # the same laws over ALL elements (namespace-neutral spelling), so the default namespace cannot mask a difference
        allx = s('*|*')
        isb_any = set(s(f'*|*:is({B})'))
        isab_any = s(f'*|*:is({A}, {B})')
        want_any = tuple(k for k in allx if k in isa_any or k in isb_any)
        if isab_any != want_any:
            yield ('is-union-any-namespace', f'*|*:is({A}, {B})', isab_any, want_any)
        isba_any = s(f'*|*:is({B}, {A})')
        if isba_any != want_any:
            yield ('is-union-any-namespace', f'*|*:is({B}, {A})', isba_any, want_any)
        notab_any = s(f'*|*:not({A}, {B})')
        comp_any = tuple(k for k in allx if k not in set(want_any))
        if notab_any != comp_any:
            yield ('not-list-complement-any-namespace', f'*|*:not({A}, {B})', notab_any, comp_any)
    # the separator of a list is a comma with optional blanks AND comments around it: the laws do not depend on how the list is typed
    for sep in (' /* c */, ', ' /**/ ,/* x, y */ ', ','):
        ab2 = s(f'{A}{sep}{B}')
        if ab2 != union:
            yield ('list-union-commented', f'{A}{sep}{B}', ab2, union)
        is2 = s(f':is({A}{sep}{B})')
        if is2 != isab:
            yield ('is-union-commented', f':is({A}{sep}{B})', is2, isab)
        n2 = s(f':not({A}{sep}{B})')
        if n2 != notab:
            yield ('not-list-commented', f':not({A}{sep}{B})', n2, notab)
    if not set(a) <= set(ab):
        yield ('monotone', f'{A}, {B}', ab, a)
    for r in (a, ab, isab, nota):
        if list(r) != sorted(set(r)) or -1 in r:
            yield ('document-order', A, r, tuple(sorted(set(r))))


def pseudo_names(text):
    import re
    return sorted(set(re.findall(r':[-a-z]+', text)))


def run_shard(desc):
    from .. import common
    sv = common.bind()
    tier, i, n = desc
    res = shard.Result()
    P, extra, unknown = pool(sv)
    ps = pairs(tier, P)
    D = docs(tier)
    sel = Sel(sv)
    if i == 0:
        res.count('pool', len(P))
        res.count('pairs', len(ps))
        res.count('documents', len(D))
        res.extra['pseudo_names_added_from_parser_tables'] = extra
        res.extra['pseudo_names_not_exercised'] = unknown
    warnings.simplefilter('ignore')
    for pi in range(i, len(ps), n):
        ia, ib = ps[pi]
        A, B = P[ia], P[ib]
        fails = 0
        for di, (name, kind, soup, order) in enumerate(D):
            for mapname in (('none', 'default') if tier == 'quick' else MAPS):
                if mapname != 'none' and kind in ('html.parser', 'lxml'):
                    continue        # no namespace support in these trees: the map is irrelevant
                try:
                    with shard.deadline(30):
                        bad = list(laws(sel, A, B, mapname, di, soup, order))
                except shard.CaseTimeout:
                    bad = [('timeout', A + ' / ' + B, (), ())]
                except Exception as e:
                    bad = [('raise:' + type(e).__name__, A + ' / ' + B, (), (str(e)[:100],))]
                res.evaluations += 1
                if not bad:
                    res.outcome('laws-hold')
                    if sel(A, mapname, di, soup, order) and sel(B, mapname, di, soup, order) != sel(A, mapname, di, soup, order):
                        res.nontrivial += 1
                for law, lhs, got, want in bad:
                    res.outcome('broken:' + law)
                    fails += 1
                    if fails <= 2:
                        res.fail({'A': A, 'B': B, 'doc': name, 'kind': kind, 'map': mapname, 'law': law},
                                 {'law': law, 'pseudo': '+'.join(pseudo_names(A + ' ' + B)),
                                  'xml': kind == 'xml', 'map': mapname},
                                 f'[{name}/{kind}, map={mapname}] law {law}: {lhs!r} selects #{list(got)}, the law requires #{list(want)} (A={A!r}, B={B!r})')
                    else:
                        res.failure_count += 1
        if pi % 997 == 0:
            res.sample({'A': A, 'B': B, 'laws': ['list-union', 'is-union', 'is-equals-list', 'not-complement',
                                                 'not-list-complement', 'where/matches-equals-is', 'compound-intersection', 'monotone',
                                                 'document-order']})
    return res


def replay(case):
    from .. import common
    sv = common.bind()
    warnings.simplefilter('ignore')
    soup = _docs.build(case['doc'], case['kind'])
    order = {id(e): k for k, e in enumerate(soup.find_all(True))}
    try:
        bad = list(laws(Sel(sv), case['A'], case['B'], case['map'], 0, soup, order))
    except Exception as e:
        return {'law': 'raise:' + type(e).__name__}, repr(e)
    for law, lhs, got, want in bad:
        if law == case['law']:
            return {'law': law, 'pseudo': '+'.join(pseudo_names(case['A'] + ' ' + case['B'])), 'xml': case['kind'] == 'xml',
                    'map': case['map']}, f'{lhs!r}: {list(got)} vs {list(want)}'
    if bad:
        law, lhs, got, want = bad[0]
        return {'law': law}, f'{lhs!r}: {list(got)} vs {list(want)}'
    return None


def check(tier, seed):
    res, info = shard.run(__name__, shards(tier, seed), order_seed=seed)
    cov = {
        'rule': ('every ordered pair (A,B) of the pool x document x namespace map has all nine law families evaluated on soupsieve\'s own '
                 'select() answers; a case is non-trivial when A selects something and B selects a different set; (pair, document, map) '
                 'triples are distinct by construction'),
        'exhaustive': not info['cap_hit'],
        'pool_size': res.counters.get('pool'), 'ordered_pairs': res.counters.get('pairs'), 'documents': res.counters.get('documents'),
        'pseudo_names_added_from_parser_tables': res.extra.get('pseudo_names_added_from_parser_tables', []),
        'pseudo_names_not_exercised': res.extra.get('pseudo_names_not_exercised', []),
    }
    return {'result': res, 'coverage': cov, 'info': info,
            'assumptions': ['relational oracle only: laws between soupsieve answers (what each selector should select is C01/C17)',
                            "the universe U is what '*' selects under the same map (with a default namespace: the elements in it); html.parser/lxml trees carry no namespaces, so only "
                            'the map-free run is made on them']}
