"""Three-valued reference matcher for the selector AST of vf/gen/selectors.py over bs4 trees.

Written from the CSS Selectors 3/4 text and the property statements; never imports soupsieve, has no parser (it
evaluates ASTs), and uses plain string/arithmetic code instead of regular expressions.
Verdicts: True / False / None (None = the property text does not pin the answer down -> the case is skipped).
"""
from __future__ import annotations
import bs4
from . import lang as reflang

NS_XHTML = 'http://www.w3.org/1999/xhtml'
NS_XML = 'http://www.w3.org/XML/1998/namespace'
CSS_WS = ' \t\n\r\f'
HTML_ONLY = {'any-link', 'link', 'checked', 'default', 'indeterminate', 'disabled', 'enabled', 'required', 'optional',
             'placeholder-shown', 'read-only', 'read-write', 'in-range', 'out-of-range', 'defined'}
SPECIAL = (bs4.Comment, bs4.Declaration, bs4.CData, bs4.ProcessingInstruction, bs4.Doctype)


def and3(vals):
    unk = False
    for v in vals:
        if v is False:
            return False
        if v is None:
            unk = True
    return None if unk else True


def or3(vals):
    unk = False
    for v in vals:
        if v is True:
            return True
        if v is None:
            unk = True
    return None if unk else False


def not3(v):
    return None if v is None else (not v)


def lower(s: str) -> str:
    return ''.join(chr(ord(c) + 32) if 'A' <= c <= 'Z' else c for c in s)


def is_el(n):
    return isinstance(n, bs4.Tag) and not isinstance(n, bs4.BeautifulSoup)


def is_text(n):
    return isinstance(n, bs4.element.NavigableString) and not isinstance(n, SPECIAL)


def el_children(n):
    return [c for c in n.contents if is_el(c)]


def descendants(n):
    out = []
    for c in n.contents:
        if is_el(c):
            out.append(c)
            out.extend(descendants(c))
    return out


def solve_nth(a: int, b: int, pos: int) -> bool:
    """exists n >= 0 with a*n + b == pos"""
    if a == 0:
        return pos == b
    d = pos - b
    return d % a == 0 and d // a >= 0


class Ctx:
    """Everything about one call: the tree the target lives in, scope, caller's namespace map, custom aliases."""

    def __init__(self, target, namespaces=None, custom=None):
        top = target
        while top.parent is not None:
            top = top.parent
        self.top = top
        self.doc = top if isinstance(top, bs4.BeautifulSoup) else None
        if self.doc is not None:
            tops = el_children(top)
            self.root = tops[0] if tops else None
        else:
            self.root = top
        self.is_xml = bool(getattr(top, '_is_xml', False))
        self.html_ns_root = self.root is not None and self.root.namespace == NS_XHTML
        self.is_html = (not self.is_xml) or self.html_ns_root
        self.ns_support = self.is_xml or self.html_ns_root
        self.ns = dict(namespaces or {})
        self.custom = dict(custom or {})     # name (without ':--', lower) -> List AST
        self.scope = self.root if target is self.doc else target
        self._nth_cache = {}

    # ---- names
    def name_eq(self, sel_name: str, el_name: str) -> bool:
        if self.is_xml:
            return sel_name == el_name
        return lower(sel_name) == lower(el_name)

    def el_ns(self, el) -> str:
        if self.ns_support:
            return el.namespace or ''
        return NS_XHTML

    def is_html_el(self, el) -> bool:
        return self.el_ns(el) == NS_XHTML

    def is_iframe(self, el) -> bool:
        return is_el(el) and self.is_html and self.is_html_el(el) and \
            (el.name if self.is_xml else lower(el.name)) == 'iframe'

    # ---- type
    def match_type(self, el, typ, top_level: bool):
        elns = self.el_ns(el)
        if typ is None:
            if top_level and '' in self.ns and elns != self.ns['']:
                return False
            return True
        ns, name = typ
        if ns is None:
            if '' in self.ns and elns != self.ns['']:
                return False
        elif ns == '':
            if elns:
                return False
        elif ns != '*':
            uri = self.ns.get(ns)
            if uri is None or elns != uri:
                return False
        return name == '*' or self.name_eq(name, el.name)

    # ---- attributes
    def attr_lookup(self, el, ns, name):
        """-> (found, value) or None when unspecified. ns: None/'' = no namespace, '*' = any, else prefix."""
        if not self.ns_support:
            for k, v in el.attrs.items():
                if lower(str(k)) == lower(name):
                    return True, v
            return False, None
        want_uri = None
        if ns not in (None, '', '*'):
            want_uri = self.ns.get(ns)
            if want_uri is None:
                return False, None
        for k, v in el.attrs.items():
            k_ns = getattr(k, 'namespace', None)
            k_local = getattr(k, 'name', None)
            k_prefix = getattr(k, 'prefix', None)
            if k_ns and not k_prefix and ns in (None, ''):
                # bs4 stores an attribute in the element's default-declared namespace as a plain key with .namespace set
                if (str(k) == name) if self.is_xml else (lower(str(k)) == lower(name)):
                    return None
            if ns in (None, ''):
                if k_ns:
                    # a namespaced attribute is not "the attribute without a namespace" (a selector spelling the
                    # whole key 'p\:k' is outside this grammar)
                    continue
                if (str(k) == name) if self.is_xml else (lower(str(k)) == lower(name)):
                    return True, v
            elif ns == '*':
                local = k_local if k_ns else str(k)
                if local is None:
                    local = str(k)
                if (local == name) if self.is_xml else (lower(local) == lower(name)):
                    return True, v
            else:
                if not k_ns or k_ns != want_uri:
                    continue
                if (k_local == name) if self.is_xml else (lower(k_local or '') == lower(name)):
                    return True, v
        return False, None

    @staticmethod
    def norm_value(v):
        if v is None:
            return ''
        if isinstance(v, str):
            return v
        if isinstance(v, bytes):
            return v.decode('utf8', 'replace')
        if isinstance(v, (list, tuple)):
            return ' '.join(Ctx.norm_value(x) if isinstance(x, (str, bytes)) or x is None or not isinstance(x, (list, tuple))
                            else str(x) for x in v)
        return str(v)

    def match_attr(self, el, s):
        _, ns, name, op, value, flag = s
        r = self.attr_lookup(el, ns, name)
        if r is None:
            return None
        found, raw = r
        if op == '!=':
            if not found:
                return True
        elif not found:
            return False
        if op is None:
            return True
        v = self.norm_value(raw)
        val = value
        if flag == 'i' or (flag is None and not self.is_xml and lower(name) == 'type'):
            v, val = lower(v), lower(val)
        if op == '=':
            return v == val
        if op == '!=':
            return v != val
        if op == '~=':
            if not val or any(c in CSS_WS for c in val):
                return False
            return val in split_ws(v)
        if op == '|=':
            return v == val or v.startswith(val + '-')
        if not val:
            return False
        if op == '^=':
            return v.startswith(val)
        if op == '$=':
            return v.endswith(val)
        if op == '*=':
            return val in v
        raise ValueError(op)

    def get_attr(self, el, name, default=None):
        """HTML-style attribute read (no namespace), as the HTML definitions use it."""
        for k, v in el.attrs.items():
            if (str(k) == name) if self.is_xml else (lower(str(k)) == name):
                return self.norm_value(v)
        return default

    def classes(self, el):
        for k, v in el.attrs.items():
            if (str(k) == 'class') if self.is_xml else (lower(str(k)) == 'class'):
                if isinstance(v, (list, tuple)):
                    return [self.norm_value(x) for x in v]
                return split_ws(self.norm_value(v))
        return []

    # ---- structure
    def siblings(self, el):
        p = el.parent
        if p is None:
            return [el]
        return el_children(p) if not isinstance(p, bs4.BeautifulSoup) else [c for c in p.contents if is_el(c)]

    def same_type(self, a, b):
        an = a.name if self.is_xml else lower(a.name)
        bn = b.name if self.is_xml else lower(b.name)
        return an == bn and self.el_ns(a) == self.el_ns(b)

    def nth(self, el, kind, a, b, of_s):
        last = kind.startswith('last-')
        of_type = kind.endswith('of-type')
        sibs = self.siblings(el)
        if of_type:
            pool = [s for s in sibs if self.same_type(s, el)]
        elif of_s is not None:
            me = self.match_list(el, of_s, False)
            if me is False:
                return False
            flags = [self.match_list(s, of_s, False) for s in sibs]
            if me is None or any(f is None for f in flags):
                return None
            pool = [s for s, f in zip(sibs, flags) if f]
        else:
            pool = sibs
        idx = next(i for i, s in enumerate(pool) if s is el)
        pos = (len(pool) - idx) if last else idx + 1
        return solve_nth(a, b, pos)

    def is_root(self, el):
        p = el.parent
        if p is not None and self.is_iframe(p):
            return None                      # root of an iframe document: not asserted here
        if self.doc is None:
            return None                      # detached fragment: ':root' not asserted
        tops = [c for c in self.doc.contents if is_el(c)]
        if len(tops) != 1:
            return None
        for c in self.doc.contents:
            if isinstance(c, bs4.CData) or (is_text(c) and str(c).strip(CSS_WS) != ''):
                return None                  # top-level character data: ':root' not asserted
        return el is tops[0]

    def is_empty(self, el):
        for c in el.contents:
            if is_el(c):
                return False
            if is_text(c) and any(ch not in CSS_WS for ch in str(c)):
                return False
        return True

    # ---- text
    def text_of(self, el):
        out = []

        def rec(n):
            for c in n.contents:
                if is_el(c):
                    if self.is_html and self.is_iframe(c):
                        continue
                    rec(c)
                elif is_text(c):
                    out.append(str(c))
        rec(el)
        return ''.join(out)

    def own_texts(self, el):
        return [str(c) for c in el.contents if is_text(c)]

    # ---- language
    def language(self, el):
        """-> ('lang', value) | ('none',) | None (unspecified)"""
        n = el
        while n is not None and is_el(n):
            html_el = (not self.ns_support) or n.namespace == NS_XHTML
            for k, v in n.attrs.items():
                if html_el:
                    if ((str(k) == 'lang') if self.is_xml else (lower(str(k)) == 'lang')) and not getattr(k, 'namespace', None):
                        return ('lang', self.norm_value(v))
                else:
                    if getattr(k, 'namespace', None) == NS_XML and getattr(k, 'name', None) == 'lang':
                        return ('lang', self.norm_value(v))
            if html_el and self.ns_support:
                # xml:lang on an (X)HTML element: not asserted
                for k in n.attrs:
                    if getattr(k, 'namespace', None) == NS_XML and getattr(k, 'name', None) == 'lang':
                        return None
            p = n.parent
            if p is not None and self.is_iframe(p):
                return None if self.meta_unspecified else self.meta_language(n)
            n = p
        if self.doc is None:
            return None
        return self.meta_language(self.root)

    meta_unspecified = False

    def meta_language(self, root):
        """HTML <meta http-equiv=content-language content=...> pragma inside root > head."""
        if root is None:
            return ('none',)
        if self.is_xml:
            if self.html_ns_root:
                return None          # XHTML parsed as XML: pragma not asserted
            return ('none',)
        if not (is_el(root) and lower(root.name) == 'html' and self.is_html_el(root)):
            return None
        heads = [c for c in el_children(root) if lower(c.name) == 'head']
        if not heads:
            return ('none',)
        metas = [c for c in el_children(heads[0]) if lower(c.name) == 'meta']
        cands = []
        for m in metas:
            he = self.get_attr(m, 'http-equiv')
            ct = self.get_attr(m, 'content')
            if he is not None and lower(he) == 'content-language':
                cands.append(ct)
        if not cands:
            return ('none',)
        if len(cands) > 1 or not cands[0] or ',' in cands[0] or any(c in CSS_WS for c in cands[0]):
            return None
        return ('lang', cands[0])

    def match_lang(self, el, ranges):
        lg = self.language(el)
        if lg is None:
            return None
        if lg[0] == 'none':
            return False
        return any(reflang.extended_filter(r, lg[1]) for r in ranges)

    # ---- simple / compound / complex / list
    def match_simple(self, el, s):
        k = s[0]
        if k == 'id':
            v = None
            for key, val in el.attrs.items():
                if (str(key) == 'id') if self.is_xml else (lower(str(key)) == 'id'):
                    v = val
                    break
            if v is None:
                return s[1] == '' and False
            if not isinstance(v, str):
                return None
            return v == s[1]
        if k == 'class':
            return s[1] in self.classes(el)
        if k == 'attr':
            return self.match_attr(el, s)
        if k == 'pc':
            return self.match_pc(el, s[1])
        if k == 'fn':
            r = self.match_list(el, s[2], False)
            return not3(r) if s[1] == 'not' else r
        if k == 'has':
            return or3(self.match_rel(el, comb, x) for comb, x in s[1])
        if k == 'nth':
            return self.nth(el, s[1], s[2], s[3], s[4])
        if k == 'lang':
            return self.match_lang(el, s[1])
        if k == 'contains':
            if self.is_html and self.is_iframe(el):
                return None
            if s[1]:
                own = self.own_texts(el)
                return any(t in o for t in s[2] for o in own)
            text = self.text_of(el)
            return any(t in text for t in s[2])
        if k == 'custom':
            return self.match_list(el, self.custom[lower(s[1])], False)
        raise ValueError(f'reference has no rule for {s!r}')

    def match_pc(self, el, name):
        if name == 'root':
            return self.is_root(el)
        if name == 'empty':
            return self.is_empty(el)
        if name == 'scope':
            return el is self.scope
        m = {
            'first-child': ('child', 0, 1), 'last-child': ('last-child', 0, 1),
            'first-of-type': ('of-type', 0, 1), 'last-of-type': ('last-of-type', 0, 1),
        }
        if name in m:
            kind, a, b = m[name]
            return self.nth(el, kind, a, b, None)
        if name == 'only-child':
            return and3([self.nth(el, 'child', 0, 1, None), self.nth(el, 'last-child', 0, 1, None)])
        if name == 'only-of-type':
            return and3([self.nth(el, 'of-type', 0, 1, None), self.nth(el, 'last-of-type', 0, 1, None)])
        if name in HTML_ONLY and not self.is_html:
            return False                 # documented as HTML-only: never matches in XML that is not XHTML
        raise ValueError(f'reference has no rule for :{name}')

    def match_compound(self, el, c, top_level):
        _, typ, simples = c
        if typ is None and len(simples) == 1 and simples[0] == ('amp',):
            return el is self.scope
        vals = [self.match_type(el, typ, top_level)]
        if vals[0] is False:
            return False
        for s in simples:
            if s == ('amp',):
                v = el is self.scope
            else:
                v = self.match_simple(el, s)
            if v is False:
                return False
            vals.append(v)
        return and3(vals)

    def match_complex(self, el, x, top_level):
        _, comps, combs = x

        def rec(i, e):
            v = self.match_compound(e, comps[i], top_level)
            if v is False or i == 0:
                return v
            comb = combs[i - 1]
            if comb == '>':
                p = e.parent
                cands = [p] if is_el(p) else []
            elif comb == ' ':
                cands = []
                p = e.parent
                while is_el(p):
                    cands.append(p)
                    p = p.parent
            else:
                sibs = self.siblings(e)
                idx = next(j for j, s in enumerate(sibs) if s is e)
                cands = [sibs[idx - 1]] if (comb == '+' and idx > 0) else (sibs[:idx][::-1] if comb == '~' else [])
            return and3([v, or3(rec(i - 1, c) for c in cands)])
        return rec(len(comps) - 1, el)

    def match_rel(self, anchor, comb, x):
        """:has() argument: leading combinator then a complex evaluated left to right from the anchor."""
        _, comps, combs = x

        def cands_of(e, c):
            if c == '>':
                return el_children(e)
            if c == ' ':
                return descendants(e)
            sibs = self.siblings(e)
            idx = next(j for j, s in enumerate(sibs) if s is e)
            return sibs[idx + 1:idx + 2] if c == '+' else sibs[idx + 1:]

        def rec(i, e):
            v = self.match_compound(e, comps[i], False)
            if v is False or i == len(comps) - 1:
                return v
            return and3([v, or3(rec(i + 1, c) for c in cands_of(e, combs[i]))])
        return or3(rec(0, c) for c in cands_of(anchor, comb))

    def match_list(self, el, lst, top_level=True):
        return or3(self.match_complex(el, x, top_level) for x in lst)


def split_ws(s: str):
    out, cur = [], []
    for c in s:
        if c in CSS_WS:
            if cur:
                out.append(''.join(cur))
                cur = []
        else:
            cur.append(c)
    if cur:
        out.append(''.join(cur))
    return out


def select(target, lst, namespaces=None, custom=None):
    """Reference for select(): (list of matching element descendants in document order, unspecified?)"""
    ctx = Ctx(target, namespaces, custom)
    out = []
    unk = False
    for e in descendants(target):
        v = ctx.match_list(e, lst, True)
        if v is None:
            unk = True
        elif v:
            out.append(e)
    return out, unk
