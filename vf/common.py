"""Process-wide setup shared by every check: bind to the tree under test, pin the hash seed."""
from __future__ import annotations
import os
import sys

VERIF = os.path.dirname(os.path.dirname(os.path.abspath(__file__)))
REPO = os.path.abspath(os.environ.get('VERIF_REPO', '/repo'))
PY = '/venv/bin/python'


def child_env() -> dict:
    """Environment for every harness (sub)process."""
    env = dict(os.environ)
    env['PYTHONPATH'] = REPO + os.pathsep + VERIF
    env['PYTHONHASHSEED'] = '0'
    env['PYTHONDONTWRITEBYTECODE'] = '1'
    env['VERIF_REPO'] = REPO
    return env


def ensure_env() -> None:
    """Re-exec once so that PYTHONHASHSEED=0 and PYTHONPATH are in force from interpreter start."""
    if os.environ.get('PYTHONHASHSEED') != '0' or os.environ.get('VF_BOUND') != REPO:
        env = child_env()
        env['VF_BOUND'] = REPO
        os.execve(sys.executable, [sys.executable, '-m', 'vf.run'] + sys.argv[1:], env)


_bound = False


def bind():
    """Import soupsieve from the tree under test (soupsieve first, then bs4) and return the module."""
    global _bound
    if sys.path[0] != REPO:
        if REPO in sys.path:
            sys.path.remove(REPO)
        sys.path.insert(0, REPO)
    if not _bound:
        for name in list(sys.modules):
            if name == 'soupsieve' or name.startswith('soupsieve.'):
                f = getattr(sys.modules[name], '__file__', '') or ''
                if not f.startswith(REPO + os.sep):
                    del sys.modules[name]
    try:
        import soupsieve
    except Exception:
        # importing soupsieve first may itself be what is broken; fall back to bs4 first
        import bs4  # noqa: F401
        import soupsieve
    import bs4  # noqa: F401
    f = os.path.abspath(soupsieve.__file__)
    if not f.startswith(os.path.join(REPO, 'soupsieve') + os.sep):
        raise RuntimeError(f'soupsieve imported from {f}, not from {REPO}')
    _bound = True
    return soupsieve


def seed() -> int:
    try:
        return int(os.environ.get('VERIF_SEED', '0'))
    except ValueError:
        return 0
