"""setup_cmd: offline self-check of the framework (imports, reference models, generators). Exit 0 when usable."""
from __future__ import annotations
import sys


def main():
    from . import common
    common.bind()
    from .ref import ident
    assert ident.consume_ident(ident.serialize_ident('\x01-9 a\x7f')) == ('\x01-9 a\x7f', len(ident.serialize_ident('\x01-9 a\x7f')))
    assert ident.consume_ident('\\31 23') == ('123', 6)
    assert ident.consume_ident('1a') is None and ident.consume_ident('-') is None and ident.consume_ident('--') == ('--', 2)
    print('vf.selftest ok')
    return 0


if __name__ == '__main__':
    sys.exit(main())
