#!/venv/bin/python
"""Print the measured-sizes table (DESIGN.md 10.2) from the evidence files of the last runs."""
import json, glob, os
HERE = os.path.dirname(os.path.dirname(os.path.abspath(__file__)))
def fmt(n):
    if not isinstance(n, (int, float)):
        return str(n)
    return '%.2f M' % (n / 1e6) if n >= 1e6 else ('%.1f k' % (n / 1e3) if n >= 1e4 else str(n))
print('| id | tier | cases executed | non-trivial | states / transitions / replays | wall |')
print('|---|---|---|---|---|---|')
for f in sorted(glob.glob(os.path.join(HERE, 'evidence', 'C*.json'))):
    e = json.load(open(f))
    c = e.get('coverage', {})
    st = ''
    if c.get('states', 0) > 1:
        st = '%s / %s / %s' % (fmt(c.get('states')), fmt(c.get('transitions')), fmt(c.get('traces_validated_against_impl')))
    print('| %s | %s | %s | %s | %s | %.0f s |' % (e['property_id'], e['tier'], fmt(c.get('evaluations')), fmt(c.get('distinct_nontrivial')), st, e.get('wall_s', 0)))
