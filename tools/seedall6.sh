#!/bin/bash
cd /verif
mkdir -p /tmp/seedresults6
for d in seeded/C*-w5*; do
  id=$(basename $d); prop=${id%%-*}
  tools/seedrun.py $d $prop > /tmp/seedresults6/$id.json 2>&1
  echo "$id $(grep -m1 '"exit"' /tmp/seedresults6/$id.json) $(grep -m1 '"tests"' /tmp/seedresults6/$id.json) demo=$(grep -m1 'demo_with_patch_exit' /tmp/seedresults6/$id.json)/$(grep -m1 'demo_clean_exit' /tmp/seedresults6/$id.json)"
done
