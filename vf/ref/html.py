"""Definitional references for the HTML state pseudo-classes of property C17 (HTML Standard wording, no soupsieve import).

All functions take a bs4 element of an HTML document (html.parser / lxml / html5lib / API-built).  Names compare ASCII
case-insensitively; an <iframe> element is a document boundary (its content is another document).
"""
from __future__ import annotations
import bs4
from . import calendar as C

CSS_WS = ' \t\n\r\f'


def low(s):
    return ''.join(chr(ord(c) + 32) if 'A' <= c <= 'Z' else c for c in s)


def name(el):
    return low(el.name)


def is_el(n):
    return isinstance(n, bs4.Tag) and not isinstance(n, bs4.BeautifulSoup)


def attr(el, key, default=None):
    for k, v in el.attrs.items():
        if low(str(k)) == key:
            return ' '.join(v) if isinstance(v, (list, tuple)) else ('' if v is None else str(v))
    return default


def has(el, key):
    return attr(el, key) is not None


def parent_in_doc(el):
    """Parent element within the same document (None at the document root or at an iframe boundary)."""
    p = el.parent
    if not is_el(p) or name(p) == 'iframe':
        return None
    return p


def ancestors(el):
    p = parent_in_doc(el)
    while p is not None:
        yield p
        p = parent_in_doc(p)


def doc_root(el):
    r = el
    for a in ancestors(el):
        r = a
    return r


def descendants_in_doc(el):
    """Element descendants in tree order, not entering iframes."""
    for c in el.contents:
        if is_el(c):
            yield c
            if name(c) != 'iframe':
                yield from descendants_in_doc(c)


def form_owner(el):
    for a in ancestors(el):
        if name(a) == 'form':
            return a
    return None


def nested_form_inside(form):
    return any(name(d) == 'form' for d in descendants_in_doc(form))


# ---------------------------------------------------------------- :disabled / :enabled
CONTROLS = ('button', 'select', 'textarea', 'fieldset', 'optgroup', 'option', 'input')


def is_control(el):
    n = name(el)
    if n == 'input':
        return low(attr(el, 'type', '') or '') != 'hidden'
    return n in CONTROLS


def first_legend_child(fs):
    for c in fs.contents:
        if is_el(c) and name(c) == 'legend':
            return c
    return None


def actually_disabled(el):
    n = name(el)
    if n in ('button', 'input', 'select', 'textarea', 'fieldset'):
        if has(el, 'disabled'):
            return True
        chain = [el] + list(ancestors(el))
        for i in range(1, len(chain)):
            a = chain[i]
            if name(a) == 'fieldset' and has(a, 'disabled'):
                leg = first_legend_child(a)
                if leg is None or not any(x is leg for x in chain[:i]):
                    return True
        return False
    if n == 'optgroup':
        return has(el, 'disabled')
    if n == 'option':
        if has(el, 'disabled'):
            return True
        p = parent_in_doc(el)
        return p is not None and name(p) == 'optgroup' and has(p, 'disabled')
    return False


# ---------------------------------------------------------------- :default
def is_submit(el):
    return name(el) in ('input', 'button') and low(attr(el, 'type', '') or '') == 'submit'


def is_checked_like(el):
    n = name(el)
    if n == 'input' and low(attr(el, 'type', '') or '') in ('checkbox', 'radio') and has(el, 'checked'):
        return True
    return n == 'option' and has(el, 'selected')


def is_default(el):
    """-> True/False/None(unspecified: nested forms)"""
    if is_checked_like(el):
        return True
    if not is_submit(el):
        return False
    form = form_owner(el)
    if form is None:
        return False
    if nested_form_inside(form) or form_owner(form) is not None:
        return None
    for d in descendants_in_doc(form):
        if is_submit(d):
            return d is el
    return False


# ---------------------------------------------------------------- :indeterminate
def is_indeterminate(el):
    n = name(el)
    t = low(attr(el, 'type', '') or '') if n == 'input' else ''
    if n == 'progress':
        return not has(el, 'value')
    if n == 'input' and t == 'checkbox':
        return has(el, 'indeterminate')
    if n == 'input' and t == 'radio':
        if has(el, 'checked'):
            return False
        nm = attr(el, 'name')
        if not nm:
            return True
        owner = form_owner(el)
        # nested forms (html.parser and API-built trees keep them): a control belongs to its NEAREST form ancestor, so the radios of an inner form
        # are not members of the outer form's groups
        scope = owner if owner is not None else doc_root(el)
        pool = list(descendants_in_doc(scope))
        if scope is not owner:
            pool = [scope] + pool
        for d in pool:
            if d is el or name(d) != 'input' or low(attr(d, 'type', '') or '') != 'radio':
                continue
            if attr(d, 'name') == nm and form_owner(d) is owner and has(d, 'checked'):
                return False
        return True
    return False


# ---------------------------------------------------------------- :placeholder-shown
TEXTLIKE = ('', 'text', 'search', 'url', 'tel', 'email', 'password', 'number')


def own_text(el):
    out = []
    for d in el.descendants:
        if isinstance(d, bs4.element.NavigableString) and not isinstance(
                d, (bs4.Comment, bs4.Declaration, bs4.CData, bs4.ProcessingInstruction, bs4.Doctype)):
            out.append(str(d))
    return ''.join(out)


def placeholder_shown(el):
    n = name(el)
    ph = attr(el, 'placeholder')
    if not ph:
        return False
    if n == 'input':
        t = attr(el, 'type')
        if t is not None and low(t) not in TEXTLIKE:
            return None if low(t) not in ('checkbox', 'radio', 'submit', 'button', 'hidden', 'date', 'time', 'month', 'week',
                                          'datetime-local', 'range', 'color', 'file', 'image', 'reset') else False
        return not attr(el, 'value')
    if n == 'textarea':
        return own_text(el) in ('', '\n')
    return False


# ---------------------------------------------------------------- range
def range_state(el):
    """'in' | 'out' | 'neither'"""
    if name(el) != 'input':
        return 'neither'
    t = low(attr(el, 'type', '') or '')
    if t not in C.RANGE_TYPES:
        return 'neither'
    mn, mx = C.parse(t, attr(el, 'min')), C.parse(t, attr(el, 'max'))
    if mn is None and mx is None:
        return 'neither'
    return 'out' if C.out_of_range(t, mn, mx, C.parse(t, attr(el, 'value'))) else 'in'
