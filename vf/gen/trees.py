"""Tree specifications, exhaustive enumerators and builders (bs4 API and the installed parsers).

Node spec (plain tuples, JSON-able):
    ('e', name, attrs, children)   attrs = tuple of (key, value); key = str or (prefix, local, namespace-uri);
                                   value = str | list-of-str | None ...; optional 5th item: (prefix, namespace) of the tag
    ('t', text) ('c', text) ('cd', text) ('pi', text) ('dt', text) ('decl', text)
A forest is a tuple of nodes (the children of the document object).
"""
from __future__ import annotations
import itertools
from functools import lru_cache


# ---------------------------------------------------------------- shapes
@lru_cache(maxsize=None)
def forests(n: int):
    """All ordered forests with exactly n (unlabelled) element nodes; a node is a tuple of child nodes."""
    if n == 0:
        return ((),)
    out = []
    for k in range(1, n + 1):          # size of the first tree
        for first_children in forests(k - 1):
            for rest in forests(n - k):
                out.append((first_children,) + rest)
    return tuple(out)


def trees(n: int):
    """All ordered rooted trees with exactly n nodes (as single-root forests)."""
    return tuple((ch,) for ch in forests(n - 1))


def count_nodes(forest):
    return sum(1 + count_nodes(ch) for ch in forest)


def label(forest, labels):
    """Yield every labelling of the shape with the given labels (pre-order)."""
    n = count_nodes(forest)
    for combo in itertools.product(labels, repeat=n):
        it = iter(combo)

        def rec(f):
            out = []
            for ch in f:
                lab = next(it)
                out.append((lab, rec(ch)))
            return tuple(out)
        yield rec(forest)


def to_spec(labelled, attr_fn=None):
    """(label, children) forest -> node spec forest; labels are tag names; attr_fn(index) -> attrs tuple."""
    counter = itertools.count()

    def rec(f):
        out = []
        for lab, ch in f:
            i = next(counter)
            attrs = attr_fn(i) if attr_fn else ()
            out.append(('e', lab, attrs, rec(ch)))
        return tuple(out)
    return rec(labelled)


# ---------------------------------------------------------------- interleavings
FILL = {
    'ws': ('t', ' \n'),
    'text': ('t', 'x'),
    'comment': ('c', 'k'),
    'cdata': ('cd', 'd'),
    'pi': ('pi', 'p'),
}


def gaps(forest):
    """Number of gaps: for every child list (including the top level) len+1 positions."""
    g = len(forest) + 1
    for node in forest:
        if node[0] == 'e':
            g += gaps(node[3])
    return g


def fill_gaps(forest, chooser, top=True, counter=None):
    """Insert chooser(gap_index, is_top) (a node spec or None) into every gap."""
    if counter is None:
        counter = itertools.count()
    out = []
    for node in forest:
        x = chooser(next(counter), top)
        if x is not None:
            out.append(x)
        if node[0] == 'e':
            out.append((node[0], node[1], node[2], fill_gaps(node[3], chooser, False, counter)) + tuple(node[4:]))
        else:
            out.append(node)
    x = chooser(next(counter), top)
    if x is not None:
        out.append(x)
    return tuple(out)


def interleavings(forest, kinds=('ws', 'text', 'comment', 'cdata'), single=True, top_level=True):
    """The bare forest, each kind in all gaps, and (single=True) each kind in each single gap."""
    yield ('none', forest)
    n = gaps(forest)
    for k in kinds:
        node = FILL[k]
        yield (k + '-all', fill_gaps(forest, lambda i, top, node=node: node if (top_level or not top) else None))
        if single:
            for g in range(n):
                yield (f'{k}@{g}', fill_gaps(forest, lambda i, top, node=node, g=g: node if i == g and (top_level or not top) else None))


# ---------------------------------------------------------------- builders
def _mk(bs4, soup, node):
    kind = node[0]
    if kind == 'e':
        name, attrs, children = node[1], node[2], node[3]
        kw = {}
        if len(node) > 4 and node[4] is not None:
            kw['prefix'], kw['namespace'] = node[4]
        tag = soup.new_tag(name, **kw)
        for k, v in attrs:
            if isinstance(k, tuple):
                k = bs4.element.NamespacedAttribute(k[0], k[1], k[2])
            tag.attrs[k] = list(v) if isinstance(v, (list, tuple)) else v
        for ch in children:
            tag.append(_mk(bs4, soup, ch))
        return tag
    text = node[1]
    cls = {'t': bs4.element.NavigableString, 'c': bs4.Comment, 'cd': bs4.CData,
           'pi': bs4.ProcessingInstruction, 'dt': bs4.Doctype, 'decl': bs4.Declaration}[kind]
    return cls(text)


def build_api(forest, xml=False):
    """Build through the bs4 API on an empty html.parser (or xml) soup: nodes are stored exactly as specified."""
    import bs4
    soup = bs4.BeautifulSoup('', 'xml' if xml else 'html.parser')
    for node in forest:
        soup.append(_mk(bs4, soup, node))
    return soup


def build_detached(node, xml=False):
    """A single element (with its subtree) that has no parent at all."""
    import bs4
    soup = bs4.BeautifulSoup('', 'xml' if xml else 'html.parser')
    return _mk(bs4, soup, node)


def _esc(s, quote=False):
    s = s.replace('&', '&amp;').replace('<', '&lt;').replace('>', '&gt;')
    if quote:
        s = s.replace('"', '&quot;')
    return s


def to_markup(forest, xml=False):
    out = []
    for node in forest:
        k = node[0]
        if k == 'e':
            name = node[1]
            if len(node) > 4 and node[4] is not None and node[4][0]:
                name = node[4][0] + ':' + name
            parts = [name]
            for key, v in node[2]:
                if isinstance(key, tuple):
                    key = (key[0] + ':' if key[0] else '') + key[1]
                if isinstance(v, (list, tuple)):
                    v = ' '.join(v)
                parts.append('%s="%s"' % (key, _esc(v or '', True)))
            inner = to_markup(node[3], xml)
            if xml and not inner:
                out.append('<%s/>' % ' '.join(parts))
            else:
                out.append('<%s>%s</%s>' % (' '.join(parts), inner, name))
        elif k == 't':
            out.append(_esc(node[1]))
        elif k == 'c':
            out.append('<!--%s-->' % node[1])
        elif k == 'cd':
            out.append('<![CDATA[%s]]>' % node[1])
        elif k == 'pi':
            out.append('<?%s?>' % node[1])
        elif k == 'dt':
            out.append('<!DOCTYPE %s>' % node[1])
        elif k == 'decl':
            out.append('<!%s>' % node[1])
    return ''.join(out)


def build_parsed(forest, parser):
    """Serialise and parse with an installed parser ('html.parser', 'lxml', 'html5lib', 'xml')."""
    import bs4
    import warnings
    with warnings.catch_warnings():
        warnings.simplefilter('ignore')
        return bs4.BeautifulSoup(to_markup(forest, xml=(parser == 'xml')), parser)


def elements(root):
    """All Tag descendants of a soup/element in document order (explicit walk, no bs4 search helpers)."""
    import bs4
    out = []
    stack = [iter(root.contents)]
    while stack:
        try:
            n = next(stack[-1])
        except StopIteration:
            stack.pop()
            continue
        if isinstance(n, bs4.Tag):
            out.append(n)
            stack.append(iter(n.contents))
    return out


def fingerprint(root):
    """Structure digest of a built tree: used to merge documents that a parser normalised to the same thing."""
    import bs4
    out = []

    def rec(n, d):
        for c in n.contents:
            if isinstance(c, bs4.Tag):
                out.append((d, 'e', c.name, c.namespace, c.prefix,
                            tuple((str(k), getattr(k, 'namespace', None), tuple(v) if isinstance(v, list) else v)
                                  for k, v in c.attrs.items())))
                rec(c, d + 1)
            else:
                out.append((d, type(c).__name__, str(c)))
    rec(root, 0)
    return tuple(out)
