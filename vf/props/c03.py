"""C03 — all query entry points are views of one match relation.

Space: trees T(<=3|4) with ids x call target in {document, every element, a parentless copy of every subtree} x a selector
pool (C01 grammar + every placement of :scope and &) x entry points {select, iselect, select_one, match, filter(tag),
filter(list), filter(generator), closest} x limits {-2,-1,0,1,2,3,10}; plus the argument layer: module function vs
compile(pattern, namespaces, flags, custom=custom).method for every combination of namespaces/flags/custom passed
positionally and by keyword.
Oracle: the reference relation M(selector, element, scope) of vf/ref/css.py plus the coherence equations of the property.
"""
from __future__ import annotations
import contextlib
import io
import itertools
import warnings
from ..engine import shard
from ..gen import trees as T, selectors as S
from ..ref import css as R
from . import _sel

ID = 'C03'
LEVEL = 'exploration'
LIMITS = (-2, -1, 0, 1, 2, 3, 10)
_CACHE = {}


def pool(tier):
    if ('pool', tier) in _CACHE:
        return _CACHE[('pool', tier)]
    a, b, star = S.cp(S.T('a')), S.cp(S.T('b')), S.cp(S.T('*'))
    fc, lc, em = S.cp(None, ('pc', 'first-child')), S.cp(None, ('pc', 'last-child')), S.cp(None, ('pc', 'empty'))
    scope, amp = S.cp(None, ('pc', 'scope')), S.cp(None, ('amp',))
    out = []
    base = [a, b, star, fc, lc, em]
    for c in base:
        out.append((S.cx(c),))
    for x, y in itertools.product(base[:5], repeat=2):
        for k in S.COMBS:
            out.append((S.cx(x, k, y),))
    out += [(S.cx(a), S.cx(b)), (S.cx(fc), S.cx(em)),
            (S.cx(S.cp(None, ('fn', 'not', (S.cx(a),)))),), (S.cx(S.cp(None, ('fn', 'is', (S.cx(a, '>', b), S.cx(lc))))),),
            (S.cx(S.cp(None, ('has', (('>', S.cx(a)),)))),), (S.cx(S.cp(None, ('has', ((' ', S.cx(b)),)))),),
            (S.cx(S.cp(None, ('nth', 'child', 2, 1, None, None))),), (S.cx(S.cp(None, ('id', 'e1'))),),
            (S.cx(S.cp(None, ('fn', 'not', (S.cx(S.cp(None, ('attr', None, 'id', None, None, None))),)))),),
            (S.cx(S.cp(None, ('pc', 'only-child'))),), (S.cx(S.cp(None, ('fn', 'not', (S.cx(a), S.cx(b))))),)]
    # every placement of :scope and &
    for sc in (scope, amp):
        out += [
            (S.cx(sc),), (S.cx(sc, '>', a),), (S.cx(sc, ' ', a),), (S.cx(sc, '+', a),), (S.cx(sc, '~', star),),
            (S.cx(sc, '>', star, '>', star),), (S.cx(a, ' ', sc),), (S.cx(star, '>', sc),),
            (S.cx(S.cp(S.T('a'), sc[2][0])),),
            (S.cx(S.cp(None, ('fn', 'not', (S.cx(sc),)))),),
            (S.cx(S.cp(None, ('fn', 'is', (S.cx(sc), S.cx(a)))), ' ', b),),
            (S.cx(S.cp(None, ('has', (('>', S.cx(sc)),)))),),
            (S.cx(S.cp(None, ('fn', 'not', (S.cx(sc, ' ', star),)))),),
            (S.cx(sc), S.cx(b)),
            (S.cx(sc, '>', S.cp(None, ('pc', 'first-child'))),),
            (S.cx(sc, '~', a),), (S.cx(sc, '~', star, ' ', star),), (S.cx(star, ' ', sc, ' ', star),), (S.cx(sc, '+', star, '>', b),),
            (S.cx(S.cp(None, ('has', (('~', S.cx(sc)),)))),), (S.cx(S.cp(None, ('fn', 'is', (S.cx(sc, '~', star),)))),),
        ]
    _CACHE[('pool', tier)] = out
    return out


def has_scope(lst):
    return bool({':scope', 'amp'} & _sel.atoms_of(lst))


def forests(tier):
    out = []
    for n in range(1, (3 if tier == 'quick' else 4) + 1):
        for shape in T.forests(n):
            if len(shape) > 2:
                continue
            for lab in T.label(shape, ('a', 'b')):
                k = itertools.count()
                out.append(T.to_spec(lab, lambda i: (('id', 'e%d' % i),)))
    # the same shapes without ids: structurally identical twins (bs4's Tag.__eq__ is structural, identity must decide)
    twins = []
    for n in range(1, 4):
        for shape in T.forests(n):
            if len(shape) > 2:
                continue
            for lab in T.label(shape, ('a',)):
                twins.append(T.to_spec(lab))
    twins.append((('e', 'a', (), (('e', 'b', (), ()), ('e', 'b', (), ()), ('e', 'b', (), (('e', 'a', (), ()),)))), ('e', 'a', (), (('e', 'b', (), ()), ('e', 'b', (), ()), ('e', 'b', (), (('e', 'a', (), ()),))))))
    out = out + twins
    inner = ('e', 'html', (), (('e', 'body', (), (('e', 'a', (('id', 'in1'),), (('e', 'b', (('id', 'in2'),), ()),)), ('e', 'b', (), ()))),))
    out.append((('e', 'a', (('id', 'o1'),), (('e', 'b', (('id', 'o2'),), (('e', 'iframe', (), (inner,)),)), ('e', 'a', (), ()))),))
    out.append((('e', 'b', (), (('e', 'iframe', (), (('e', 'a', (), (('e', 'a', (), ()),)),)), ('e', 'a', (('id', 'o3'),), ()))),))
    # a few trees with interleaved non-element children (filter/select must never return them)
    extra = []
    for f in out[:12]:
        extra.append(T.fill_gaps(f, lambda i, top: ('t', 'x') if i % 2 else ('c', 'k')))
    return out + extra


def subtree_specs(forest):
    out = []

    def rec(nodes):
        for n in nodes:
            if n[0] == 'e':
                out.append(n)
                rec(n[3])
    rec(forest)
    return out


def shards(tier, seed):
    n = 32 if tier == 'quick' else 96
    return [('main', tier, i, n) for i in range(n)] + [('args', tier, i, 8) for i in range(8)] + [('xmlns', tier, 0, 1), ('amp', tier, 0, 1)]


def ids(xs):
    return [id(x) for x in xs]


def expect(ctx, lst, els):
    """-> (list of matching elements, any unspecified?)"""
    out, unk = [], False
    for e in els:
        v = ctx.match_list(e, lst, True)
        if v is None:
            unk = True
        elif v:
            out.append(e)
    return out, unk


def check_target(sv, target, lst, text, res, case, is_doc):
    """All entry points for one (target, selector). Yields failures as (sig, detail)."""
    fails = []

    def bad(entry, what, detail):
        fails.append(({'entry': entry, 'what': what, 'scope': has_scope(lst), 'target': 'document' if is_doc else
                       ('parentless' if target.parent is None else 'element')}, detail))
    try:
        with shard.deadline(20):
            c = sv.compile(text)
            ctx = R.Ctx(target)
            desc = R.descendants(target)
            want, unk = expect(ctx, lst, desc)
            if unk:
                res.unspecified += 1
                return fails
            if 0 < len(want) < len(desc):
                res.nontrivial += 1
            # select / iselect / select_one / limits
            got = c.select(target)
            res.evaluations += 1
            if ids(got) != ids(want):
                bad('select', 'content', f'select({text!r}) = {[_sel.brief(x) for x in got]} want {[_sel.brief(x) for x in want]}')
            if any(x is target for x in got) or any(not isinstance(x, sv.css_match.bs4.Tag) for x in got):
                bad('select', 'self-or-non-element', f'select({text!r}) returned the target itself or a non-element')
            it = c.iselect(target)
            got_i = list(it)
            res.evaluations += 1
            if ids(got_i) != ids(want):
                bad('iselect', 'content', f'iselect({text!r}) = {[_sel.brief(x) for x in got_i]} want {[_sel.brief(x) for x in want]}')
            one = c.select_one(target)
            res.evaluations += 1
            if one is not (want[0] if want else None):
                bad('select_one', 'content', f'select_one({text!r}) = {one!r} want {(want[0] if want else None)!r}')
            for k in LIMITS:
                w = want[:k] if k > 0 else want
                g1 = c.select(target, limit=k)
                g2 = list(c.iselect(target, k))
                g3 = sv.select(text, target, limit=k)
                res.evaluations += 3
                for nm, g in (('select', g1), ('iselect', g2), ('module.select', g3)):
                    if ids(g) != ids(w):
                        bad(nm, 'limit', f'{nm}({text!r}, limit={k}) returned {len(g)} item(s) {[_sel.brief(x) for x in g]}, want {len(w)}')
            # filter(tag): matching element children
            kids = R.el_children(target)
            wf, unk2 = expect(ctx, lst, kids)
            gf = c.filter(target)
            res.evaluations += 1
            if not unk2 and ids(gf) != ids(wf):
                bad('filter(tag)', 'content', f'filter({text!r}, tag) = {[_sel.brief(x) for x in gf]} want {[_sel.brief(x) for x in wf]}')
            # filter(iterable): each Tag item judged as match(item) would judge it
            items = list(target.contents) + ([target] if not is_doc else []) + desc[-1:]
            wi, unk3 = [], False
            for n in items:
                if R.is_el(n):
                    v = R.Ctx(n).match_list(n, lst, True)
                    if v is None:
                        unk3 = True
                    elif v:
                        wi.append(n)
            import bs4
            gl = c.filter(list(items))
            gg = c.filter(x for x in items)
            gm = sv.filter(text, list(items))
            # the iterables bs4 itself hands out: a ResultSet (find_all), a tuple, and the same items in reverse order (each item is judged on its own)
            gr = c.filter(bs4.ResultSet(None, list(items)))
            gt = c.filter(tuple(items))
            gv = list(reversed(c.filter(list(reversed(items)))))
            res.evaluations += 6
            if not unk3:
                for nm, g in (('filter(list)', gl), ('filter(generator)', gg), ('module.filter(list)', gm), ('filter(ResultSet)', gr), ('filter(tuple)', gt), ('filter(reversed list)', gv)):
                    if ids(g) != ids(wi):
                        bad(nm, 'content', f'{nm} with {text!r} = {[_sel.brief(x) for x in g]} want {[_sel.brief(x) for x in wi]}')
            # match / closest on the target itself
            if is_doc:
                m = c.match(target)
                cl = c.closest(target)
                res.evaluations += 2
                if m is not False:
                    bad('match', 'document', f'match({text!r}, document) = {m!r}, want False')
                if cl is not None:
                    bad('closest', 'document', f'closest({text!r}, document) = {cl!r}, want None')
            else:
                wm = ctx.match_list(target, lst, True)
                m = c.match(target)
                res.evaluations += 1
                if wm is not None and m is not wm:
                    bad('match', 'content', f'match({text!r}, target) = {m!r} want {wm!r}')
                chain, n = [], target
                while R.is_el(n):
                    chain.append(n)
                    n = n.parent
                wc, unkc = None, False
                for n in chain:
                    v = ctx.match_list(n, lst, True)
                    if v is None:
                        unkc = True
                        break
                    if v:
                        wc = n
                        break
                cl = c.closest(target)
                cm = sv.closest(text, target)
                res.evaluations += 2
                if not unkc and (cl is not wc or cm is not wc):
                    bad('closest', 'content', f'closest({text!r}) = {cl!r} / module {cm!r}, want {wc!r}')
                if isinstance(cl, sv.css_match.bs4.BeautifulSoup):
                    bad('closest', 'document', f'closest({text!r}) returned the document object')
                # select(t) agrees with match on every descendant asked alone (scope = the call target)
    except shard.CaseTimeout:
        bad('any', 'timeout', f'{text!r}: an entry point did not return within 20 s')
    except Exception as e:
        bad('any', 'raise:' + type(e).__name__, f'{text!r}: {type(e).__name__}: {str(e)[:200]}')
    return fails


# ---------------------------------------------------------------- argument layer
NS_OPTS = ('absent', None, {}, {'x': 'urn:x'})
FLAG_OPTS = (0, 'DEBUG')
CUSTOM_OPTS = ('absent', None, {':--c': 'a'})
ENTRY = ('select', 'iselect', 'select_one', 'match', 'filter', 'closest')


def call_module(sv, name, text, target, ns, flags, custom, positional, limit=None):
    f = getattr(sv, name)
    args = [text, target]
    kw = {}
    has_limit = name in ('select', 'iselect')
    if positional and ns != 'absent':
        args.append(ns)
        if has_limit:
            args.append(limit or 0)
        args.append(flags)
    else:
        if ns != 'absent':
            kw['namespaces'] = ns
        if has_limit and limit is not None:
            kw['limit'] = limit
        if flags:
            kw['flags'] = flags
    if custom != 'absent':
        kw['custom'] = custom
    r = f(*args, **kw)
    return list(r) if name == 'iselect' else r


def call_compiled(sv, name, text, target, ns, flags, custom, limit=None):
    c = sv.compile(text, None if ns == 'absent' else ns, flags, custom=None if custom == 'absent' else custom)
    m = getattr(c, name)
    if name in ('select', 'iselect'):
        r = m(target, limit or 0)
        return list(r)
    return m(target)


def same(a, b):
    if isinstance(a, list) and isinstance(b, list):
        return ids(a) == ids(b)
    return a is b or (isinstance(a, bool) and a == b)


def run_args(sv, tier, i, n, res):
    fs = forests(tier)[:20]
    texts = ['a', 'b > a', ':scope > *', 'x|a, b', ':not(a)']
    combos = list(itertools.product(ENTRY, NS_OPTS, FLAG_OPTS, CUSTOM_OPTS, (False, True), (None, 1)))
    sink = io.StringIO()
    for ci in range(i, len(combos), n):
        name, ns, fl, custom, positional, limit = combos[ci]
        if limit is not None and name not in ('select', 'iselect'):
            continue
        flags = sv.DEBUG if fl == 'DEBUG' else 0
        pats = list(texts)
        if custom not in ('absent', None):
            pats += [':--c', 'b :--c', ':--C']
        for f in fs:
            soup = T.build_api(f)
            els = T.elements(soup)
            for target in [soup] + els[:2]:
                for text in pats:
                    sv.purge()
                    out = []
                    for fn in (lambda: call_module(sv, name, text, target, ns, flags, custom, positional, limit),
                               lambda: call_compiled(sv, name, text, target, ns, flags, custom, limit)):
                        try:
                            with shard.deadline(20), contextlib.redirect_stdout(sink):
                                out.append(('ok', fn()))
                        except shard.CaseTimeout:
                            out.append(('timeout', None))
                        except Exception as e:
                            out.append(('raise', type(e).__name__ + ': ' + str(e)[:80]))
                    sink.seek(0)
                    sink.truncate()
                    res.evaluations += 2
                    (s1, v1), (s2, v2) = out
                    ok = s1 == s2 and (same(v1, v2) if s1 == 'ok' else (s1 == 'timeout' or v1.split(':')[0] == v2.split(':')[0]))
                    if s1 == 'ok' and (v1 not in (None, False, [])):
                        res.nontrivial += 1
                    res.outcome('args-agree' if ok else 'args-differ')
                    if not ok:
                        res.fail({'layer': 'args', 'forest': f, 'entry': name, 'ns': ns, 'flags': fl, 'custom': custom,
                                  'positional': positional, 'limit': limit, 'text': text,
                                  'target': -1 if target is soup else els.index(target)},
                                 {'entry': 'module.' + name, 'what': 'args', 'custom': custom != 'absent', 'ns': ns != 'absent',
                                  'debug': bool(flags), 'positional': positional},
                                 f'module {name}({text!r}, ns={ns!r}, flags={fl}, custom={custom!r}, positional={positional}, '
                                 f'limit={limit}) -> {out[0]!r}; compile(...).{name} -> {out[1]!r}')
    if i == 0:
        run_args_ns(sv, res)
    return res


def run_args_ns(sv, res):
    """The same equation on a document where the namespaces= map decides the answer (a prefix, a default namespace, both) and a custom= map that
    uses the prefix: an argument that is dropped or misrouted on the way to compile() changes the result."""
    import bs4
    with warnings.catch_warnings():
        warnings.simplefilter('ignore')
        soup = bs4.BeautifulSoup(XML_DOC, 'xml')
    els = T.elements(soup)
    maps = ({'x': 'urn:a'}, {'': 'urn:a'}, {'': 'urn:b', 'x': 'urn:a'})
    customs = ('absent', {':--c': 'x|e', ':--d': 'e'})
    texts = ['x|e', 'e', '*|e > x|e', ':not(x|e)', 'x|e:not(:scope)', 'x|*', '[id]']
    sink = io.StringIO()
    for name, ns, fl, custom, positional in itertools.product(ENTRY, maps, FLAG_OPTS, customs, (False, True)):
        flags = sv.DEBUG if fl == 'DEBUG' else 0
        pats = texts + ([':--c', ':--d', 'e:--c'] if custom != 'absent' and 'x' in ns else [])
        for target in [soup, els[0], els[1], els[2], els[5], els[6]]:
            for text in pats:
                sv.purge()
                out = []
                for fn in (lambda: call_module(sv, name, text, target, ns, flags, custom, positional, None),
                           lambda: call_compiled(sv, name, text, target, ns, flags, custom, None)):
                    try:
                        with shard.deadline(20), contextlib.redirect_stdout(sink):
                            out.append(('ok', fn()))
                    except shard.CaseTimeout:
                        out.append(('timeout', None))
                    except Exception as e:
                        out.append(('raise', type(e).__name__ + ': ' + str(e)[:80]))
                sink.seek(0)
                sink.truncate()
                res.evaluations += 2
                (s1, v1), (s2, v2) = out
                ok = s1 == s2 and (same(v1, v2) if s1 == 'ok' else (s1 == 'timeout' or v1.split(':')[0] == v2.split(':')[0]))
                if s1 == 'ok' and (v1 not in (None, False, [])):
                    res.nontrivial += 1
                res.outcome('args-agree' if ok else 'args-differ')
                if not ok:
                    res.fail({'layer': 'args-ns', 'entry': name, 'ns': ns, 'flags': fl, 'custom': custom, 'positional': positional, 'text': text,
                              'target': -1 if target is soup else els.index(target)},
                             {'entry': 'module.' + name, 'what': 'args-on-namespaced-document', 'custom': custom != 'absent', 'default_ns': '' in ns,
                              'debug': bool(flags), 'positional': positional},
                             f'module {name}({text!r}, ns={ns!r}, flags={fl}, custom={custom!r}, positional={positional}) -> {out[0]!r}; '
                             f'compile(...).{name} -> {out[1]!r}')


XML_DOC = ('<r xmlns:p="urn:a" xmlns:q="urn:b"><p:e id="1"><p:e id="2"/><q:e id="3"/></p:e><p:e id="4" checked=""/><q:e id="5"><p:f id="6"/></q:e>'
           '<e id="7"/><p:e id="8"/><input id="9" checked="" type="checkbox"/></r>')
XML_SELECTORS = ['x|e', 'x|e:not(:checked)', 'x|e:not(:link, :disabled)', '*|e:is(x|e, :checked)', 'x|*:not(:enabled) > *|*', ':not(x|e)', 'x|e ~ x|e',
                 ':--c', 'x|e:--c', ':is(:--c, x|f)']
MAP_SEQS = [[{'x': 'urn:a'}, {'x': 'urn:b'}, {'x': 'urn:a'}], [{'x': 'urn:b'}, None, {'x': 'urn:a', 'y': 'urn:b'}, {'y': 'urn:a', 'x': 'urn:b'}]]
CUSTOM_SEQS = [[{':--c': 'x|e'}, {':--c': 'x|f'}], [{':--c': '[id]'}, {':--c': ':not([id])'}, {':--c': '[id]'}]]


def run_xmlns(sv, res):
    """Coherence on namespaced XML: select(doc) = the descendants that match() accepts one by one; and call sequences WITHOUT purge
    in which consecutive calls use maps with the same keys and different values must each equal a freshly compiled answer."""
    import bs4
    import warnings
    with warnings.catch_warnings():
        warnings.simplefilter('ignore')
        soup = bs4.BeautifulSoup(XML_DOC, 'xml')
    els = T.elements(soup)
    idx = {id(e): k for k, e in enumerate(els)}
    for text in XML_SELECTORS:
        for maps in MAP_SEQS:
            for customs in CUSTOM_SEQS:
                sv.purge()
                for m in maps:
                    for cu in customs:
                        if ':--c' not in text:
                            cu = None
                        for entry in ('select', 'filter', 'select_one'):
                            try:
                                got = getattr(sv, entry)(text, soup if entry != 'filter' else els[0], namespaces=m, custom=cu)
                            except Exception as e:
                                got = 'raise:' + type(e).__name__
                            # fresh oracle: nothing cached, each element asked alone
                            saved = sv.css_parser._cached_css_compile
                            try:
                                fresh = saved.__wrapped__(text, sv.css_types.Namespaces(m) if m is not None else None,
                                                          sv.css_types.CustomSelectors(cu) if cu is not None else None, 0)
                                pool = els if entry != 'filter' else [e for e in els[0].contents if isinstance(e, bs4.Tag)]
                                want = [e for e in pool if fresh.match(e)]
                                if entry == 'select_one':
                                    want = want[0] if want else None
                            except Exception as e:
                                want = 'raise:' + type(e).__name__
                            res.evaluations += 1
                            g = [idx[id(x)] for x in got] if isinstance(got, list) else (idx.get(id(got)) if got is not None and not isinstance(got, str) else got)
                            w = [idx[id(x)] for x in want] if isinstance(want, list) else (idx.get(id(want)) if want is not None and not isinstance(want, str) else want)
                            if g != w:
                                res.fail({'layer': 'xmlns', 'text': text, 'maps': maps, 'customs': customs, 'entry': entry},
                                         {'entry': entry, 'what': 'no-purge-sequence-or-xml-coherence', 'custom': cu is not None},
                                         f'{entry}({text!r}, namespaces={m!r}, custom={cu!r}) in a call sequence without purge = {g}; a fresh uncached compile asked element by element = {w}')
                            else:
                                res.outcome('xmlns-coherent')
                                if w:
                                    res.nontrivial += 1
    # one dict OBJECT reused by the caller and re-bound between calls (no purge): each call must see the bindings of that moment
    for text in XML_SELECTORS[:7]:
        sv.purge()
        m = {'x': 'urn:a'}
        cu = {':--c': 'x|e'}
        for step, (uri, body) in enumerate((('urn:a', 'x|e'), ('urn:b', 'x|f'), ('urn:a', '[id]'), ('urn:zz', 'x|e'))):
            m['x'] = uri
            cu[':--c'] = body
            for entry in ('select', 'filter'):
                try:
                    got = getattr(sv, entry)(text, soup if entry == 'select' else els[0], namespaces=m)
                    fresh = sv.css_parser._cached_css_compile.__wrapped__(text, sv.css_types.Namespaces(dict(m)), None, 0)
                    pool = els if entry == 'select' else [e for e in els[0].contents if isinstance(e, bs4.Tag)]
                    want = [e for e in pool if fresh.match(e)]
                    g, w = [idx[id(x)] for x in got], [idx[id(x)] for x in want]
                except Exception as e:
                    g, w = 'raise:' + type(e).__name__, 'no exception'
                res.evaluations += 1
                if g != w:
                    res.fail({'layer': 'xmlns', 'text': text, 'maps': 'reused-dict', 'customs': None, 'entry': entry},
                             {'entry': entry, 'what': 'caller-reuses-one-dict-object', 'custom': False},
                             f'{entry}({text!r}, namespaces=<the same dict object, x re-bound to {uri!r} at step {step}>) = {g}; with the bindings of that moment it must be {w}')
                else:
                    res.outcome('reused-dict-ok')
    return res


AMP_PAIRS = [(':scope', '&'), (':scope > x|e', '& > x|e'), (':scope > *|*', '& > *|*'), (':is(:scope)', ':is(&)'), ('x|e:scope', 'x|e&'), ('*|*:scope *|f', '*|*& *|f'),
             (':not(:scope)', ':not(&)'), (':scope ~ *|e', '& ~ *|e'), (':has(> :scope)', ':has(> &)'), ('*|*:not(:scope) > x|f', '*|*:not(&) > x|f'),
             # '&' written AFTER the other parts of a compound, in particular after pseudo-classes that are recorded as flags of the compound
             (':empty:scope', ':empty&'), (':scope:empty', '&:empty'), (':root:scope', ':root&'), ('*|e:empty:scope', '*|e:empty&'), (':dir(ltr):scope', ':dir(ltr)&'),
             (':defined:scope', ':defined&'), (':not(:empty):scope', ':not(:empty)&'), ('[id]:scope:not(:root)', '[id]&:not(:root)'), (':empty:root:scope', ':empty:root&')]
AMP_MAPS = [None, {'x': 'urn:a'}, {'': 'urn:a', 'x': 'urn:a'}, {'': 'urn:zz', 'x': 'urn:a'}, {'': 'urn:b', 'x': 'urn:b'}]


def run_amp(sv, res):
    """'&' denotes exactly what ':scope' denotes: every entry point, every element as call target, with and without a default namespace."""
    import bs4
    import warnings
    with warnings.catch_warnings():
        warnings.simplefilter('ignore')
        docs = [('xml', bs4.BeautifulSoup(XML_DOC, 'xml')), ('html', bs4.BeautifulSoup('<div><e id="1"><e id="2"></e><f></f></e><e id="3"></e><svg><e id="4"></e></svg></div>', 'html5lib'))]
    for dname, soup in docs:
        els = T.elements(soup)
        idx = {id(e): k for k, e in enumerate(els)}
        for a, b in AMP_PAIRS:
            for m in AMP_MAPS:
                for target in [soup] + els:
                    for entry in ('select', 'match', 'closest', 'filter', 'select_one'):
                        if entry in ('match', 'closest') and target is soup:
                            continue
                        outs = []
                        for text in (a, b):
                            try:
                                r = getattr(sv, entry)(text, target, namespaces=m)
                                outs.append([idx.get(id(x)) for x in r] if isinstance(r, list) else (idx.get(id(r)) if r is not None and not isinstance(r, bool) else r))
                            except Exception as e:
                                outs.append('raise:' + type(e).__name__)
                        res.evaluations += 1
                        if outs[0] != outs[1]:
                            res.fail({'layer': 'amp', 'doc': dname, 'pair': [a, b], 'map': m, 'entry': entry, 'target': idx.get(id(target), -1)},
                                     {'entry': entry, 'what': 'amp-vs-scope', 'default_ns': bool(m) and '' in m},
                                     f'[{dname}] {entry}({a!r}) = {outs[0]} but {entry}({b!r}) = {outs[1]} (namespaces={m!r}, target #{idx.get(id(target), -1)})')
                        else:
                            res.outcome('amp-equals-scope')
                            if outs[0] not in (None, False, []):
                                res.nontrivial += 1
    return res


def run_shard(desc):
    from .. import common
    sv = common.bind()
    layer, tier, i, n = desc
    res = shard.Result()
    if layer == 'amp':
        return run_amp(sv, res)
    if layer == 'xmlns':
        return run_xmlns(sv, res)
    if layer == 'args':
        return run_args(sv, tier, i, n, res)
    sels = pool(tier)
    fs = forests(tier)
    if i == 0:
        res.count('selectors', len(sels))
        res.count('forests', len(fs))
    targets = []
    for f in fs:
        soup = T.build_api(f)
        els = T.elements(soup)
        targets.append((f, 'doc', -1, soup, True))
        for k, e in enumerate(els):
            targets.append((f, 'el', k, e, False))
        for k, spec in enumerate(subtree_specs(f)):
            if k and spec[3]:
                targets.append((f, 'detached', k, T.build_detached(spec), False))
    for si in range(i, len(sels), n):
        lst = sels[si]
        text = S.render(lst)
        sv.purge()
        nf = 0
        for f, tk, k, target, is_doc in targets:
            fails = check_target(sv, target, lst, text, res, None, is_doc)
            for sig, detail in fails:
                res.outcome('fail:' + sig['entry'])
                nf += 1
                if nf <= 6:
                    res.fail({'layer': 'main', 'forest': f, 'target_kind': tk, 'target': k, 'selector': lst, 'text': text}, sig, detail)
                else:
                    res.failure_count += 1
            if not fails:
                res.outcome('coherent')
        if si % 17 == 0:
            res.sample({'selector': text, 'target': 'element #1 of ' + T.to_markup(fs[3]), 'entry_points': list(ENTRY),
                        'limits': list(LIMITS)})
    return res


def replay(case):
    from .. import common
    sv = common.bind()
    if case['layer'] == 'amp':
        r = shard.Result()
        run_amp(sv, r)
        for f_ in r.failures:
            if f_['case']['pair'] == case['pair'] and f_['case']['entry'] == case['entry']:
                return f_['sig'], f_['detail']
        return (r.failures[0]['sig'], r.failures[0]['detail']) if r.failures else None
    if case['layer'] == 'xmlns':
        r = shard.Result()
        run_xmlns(sv, r)
        for f_ in r.failures:
            if f_['case']['text'] == case['text'] and f_['case']['entry'] == case['entry']:
                return f_['sig'], f_['detail']
        return (r.failures[0]['sig'], r.failures[0]['detail']) if r.failures else None
    if case['layer'] == 'args-ns':
        r = shard.Result()
        run_args_ns(sv, r)
        for f_ in r.failures:
            if all(f_['case'].get(k) == case.get(k) for k in ('entry', 'ns', 'flags', 'custom', 'positional', 'text', 'target')):
                return f_['sig'], f_['detail']
        return None
    f = _sel.tup(case['forest'])
    if case['layer'] == 'args':
        soup = T.build_api(f)
        els = T.elements(soup)
        target = soup if case['target'] < 0 else els[case['target']]
        flags = sv.DEBUG if case['flags'] == 'DEBUG' else 0
        ns = case['ns']
        out = []
        sink = io.StringIO()
        for fn in (lambda: call_module(sv, case['entry'], case['text'], target, ns, flags, case['custom'], case['positional'], case['limit']),
                   lambda: call_compiled(sv, case['entry'], case['text'], target, ns, flags, case['custom'], case['limit'])):
            try:
                with contextlib.redirect_stdout(sink):
                    out.append(('ok', fn()))
            except Exception as e:
                out.append(('raise', type(e).__name__ + ': ' + str(e)[:80]))
        (s1, v1), (s2, v2) = out
        ok = s1 == s2 and (same(v1, v2) if s1 == 'ok' else v1.split(':')[0] == v2.split(':')[0])
        return None if ok else ({'entry': 'module.' + case['entry'], 'what': 'args'}, f'{out!r}')
    lst = _sel.tup(case['selector'])
    if case['target_kind'] == 'detached':
        target = T.build_detached(subtree_specs(f)[case['target']])
    else:
        soup = T.build_api(f)
        target = soup if case['target'] < 0 else T.elements(soup)[case['target']]
    fails = check_target(sv, target, lst, case['text'], shard.Result(), None, case['target'] < 0)
    return fails[0] if fails else None


def check(tier, seed):
    res, info = shard.run(__name__, shards(tier, seed), order_seed=seed)
    cov = {
        'rule': ('every (tree, call target, selector) triple is put through all entry points and limits and compared with the reference '
                 'relation; the argument layer compares every module function with compile(...).method over all namespaces/flags/'
                 'custom/positional combinations; non-trivial = the reference selects a non-empty proper subset (main) or the '
                 'call returns a non-empty answer (args)'),
        'exhaustive': not info['cap_hit'],
        'entry_points': list(ENTRY) + ['filter(list)', 'filter(generator)', 'filter(ResultSet)', 'filter(tuple)', 'filter(reversed list)'], 'limits': list(LIMITS),
    }
    return {'result': res, 'coverage': cov, 'info': info,
            'assumptions': ['filter(iterable) judges each Tag item as match(item) does (the item is its own scope)',
                            'reference relation vf/ref/css.py; trees over names a/b with ids; API-built html.parser soups']}
