"""C14 — concurrent compilation and matching behave as if run one at a time.

E3 (stateless schedule exploration on the real threads).  Harness: 2 (thorough also 3) real threads, one operation each,
from: compile(p) for functional-pseudo-class patterns, plain patterns, custom-alias patterns with equal custom maps, the same
pattern in both threads; select/match/filter/closest(p, shared document); purge().  Every line executed inside
/repo/soupsieve is a scheduling point (opcode granularity inside the tokenizer functions in thorough).  All schedules with 0,
then <= 1 (thorough: <= 2 for a core set) preemptions are executed; before each one the pattern cache, util.lower's cache and
the warnings state are reset.  A fraction of schedules is replayed a second time and must give identical observations.
Oracle per schedule: every call returns exactly what it returns when run alone (structural equality of compiled selectors,
identical element lists), raises nothing, and afterwards every pattern used compiles (from the cache) to an object equal to a
fresh uncached parse.
"""
from __future__ import annotations
import collections
import copy
import itertools
import os
import warnings
from ..engine import shard, sched
from ..gen import trees as T

ID = 'C14'
LEVEL = 'model_checking'

CUSTOM = {':--c': 'a.x', ':--d': ':--c > b'}
COMPILE_OPS = [
    ('compile', ':lang(en)', None), ('compile', ':nth-child(2n+1)', None), ('compile', ':nth-of-type(2)', None), ('compile', ':dir(ltr)', None),
    ('compile', ':-soup-contains(x)', None), ('compile', 'p.a > b', None), ('compile', ':--c', 'C'), ('compile', 'div :--d', 'C'),
    # a pattern that is rejected: every caller gets its own SelectorSyntaxError, whoever else is compiling the same text
    ('compile', 'p.a >> b', None),
]
MATCH_OPS = [('select', 'p:lang(en)', None), ('match', ':default', None), ('filter', ':nth-child(2)', None), ('closest', 'div:not(.x)', None),
             ('select', ':--c', 'C'), ('purge', '', None),
             # parentless elements (two different ones: any scratch object shared between calls shows up)
             ('match-parentless-1', 'div:first-child', None), ('match-parentless-2', 'p:nth-last-child(1)', None), ('select-parentless-1', ':nth-child(2)', None),
             # range inputs: an ordinary date, and one whose year is longer than the interpreter's int/str conversion limit (anything the library
             # does to process-wide interpreter settings while handling it is shared by all threads)
             ('match-input-1', ':in-range', None), ('match-input-2', ':out-of-range', None), ('match-input-3', ':in-range', None),
             ('cmatch-input-1', ':in-range', None), ('cmatch-input-2', ':out-of-range', None), ('cmatch-input-3', ':in-range', None)]
LEVEL_NOW = [600]       # how many names reset() pushes (WARM unless a capacity cliff was found, see cliff_levels)
WARM = 600      # distinct names pushed through util.lower before every execution: its cache (bound 512) is full, as in a long-lived process


def make_doc():
    kid = lambda n, a=(), k=(): ('e', n, tuple(a), tuple(k))
    return T.build_api((kid('div', (('lang', 'en'),), (kid('p', (), (('t', 'x'),)), kid('form', (), (kid('input', (('type', 'submit'),)), kid('a', (('class', ('x',)),), (kid('b'),)))),
                                                        kid('p', (('lang', 'de'),)))),))


def op_callable(sv, op, doc):
    kind, pat, cu = op
    custom = dict(CUSTOM) if cu else None
    if kind == 'compile':
        return lambda: sv.compile(pat, custom=custom)
    if kind == 'purge':
        return lambda: sv.purge()
    els = T.elements(doc)
    if kind.endswith(('-parentless-1', '-parentless-2')):
        target = PARENTLESS[kind[-1]]
        return lambda: getattr(sv, kind.split('-')[0])(pat, target)
    if '-input-' in kind:
        target = INPUTS[kind[-1]]
        if kind.startswith('cmatch'):
            c = sv.compile(pat)          # compiled here, outside the scheduled threads: the threads only match (short enough for two preemptions)
            return lambda: c.match(target)
        return lambda: sv.match(pat, target)
    target = {'select': doc, 'match': els[3], 'filter': els[0], 'closest': els[5]}[kind]
    return lambda: getattr(sv, kind)(pat, target, custom=custom)


def _parentless():
    kid = lambda n, k=(): ('e', n, (), tuple(k))
    return {'1': T.build_detached(kid('div', (kid('a'), kid('b'), kid('a')))), '2': T.build_detached(kid('p', (kid('b'), kid('b'))))}


PARENTLESS = _parentless()
BIG = '9' * 4301
INPUTS = {'1': T.build_detached(('e', 'input', (('type', 'date'), ('min', '2020-01-01'), ('value', '2020-02-29')), ())),
          '2': T.build_detached(('e', 'input', (('type', 'month'), ('max', BIG + '-01'), ('value', BIG + '-02')), ())),
          '3': T.build_detached(('e', 'input', (('type', 'date'), ('min', '2020-01-01'), ('value', BIG + '-01-01')), ()))}


def interpreter_state():
    """Process-wide interpreter settings a library call has no business leaving changed."""
    import sys, decimal, locale
    return (sys.get_int_max_str_digits(), sys.getrecursionlimit(), sys.getswitchinterval(), decimal.getcontext().prec, locale.setlocale(locale.LC_ALL))


def restore_interpreter_state(st):
    import sys, decimal
    sys.set_int_max_str_digits(st[0])
    sys.setrecursionlimit(st[1])
    decimal.getcontext().prec = st[3]


def observe(sv, op, r, doc):
    """Comparable form of one call's outcome."""
    if r is None:
        return ('no-result',)
    if r[0] != 'ok':
        return r
    v = r[1]
    if op[0] == 'compile':
        return ('ok', repr(v.selectors), v.pattern, hash(v) == hash(v))
    if isinstance(v, list):
        idx = {id(e): k for k, e in enumerate(T.elements(doc))}
        for key, root in PARENTLESS.items():
            idx.update({id(e): 100 * int(key) + k for k, e in enumerate(T.elements(root))})
        return ('ok', [idx.get(id(x), -1) for x in v])
    if v is None or isinstance(v, bool):
        return ('ok', v)
    idx = {id(e): k for k, e in enumerate(T.elements(doc))}
    return ('ok', idx.get(id(v), -1))


def reset(sv):
    caches, saved = pristine(sv)
    for b, was in saved:
        if b != was:
            if isinstance(b, list):
                b[:] = was
            else:
                b.clear()
                b.update(was) if not isinstance(b, (bytearray, collections.deque)) else b.extend(was)
    for c in caches:
        try:
            c.cache_clear()
        except Exception:
            pass
    sv.purge()
    try:
        sv.util.lower.cache_clear()
    except Exception:
        pass
    low = sv.util.lower
    for i in range(LEVEL_NOW[0]):
        low('W%d' % i)
    try:
        sv.css_parser.process_custom.cache_clear()    # only exists if somebody cached it
    except Exception:
        pass


def discover(sv):
    """-> (caches, boxes): every lru_cache and every mutable container reachable as a module-level name, a class attribute, a default argument
    or a closure cell of the loaded soupsieve modules.  Found by scanning, so caches or scratch containers a change introduces are included."""
    import sys
    import types
    caches, boxes = [], []
    seen = set()
    mods = [m for n, m in sorted(sys.modules.items()) if (n == 'soupsieve' or n.startswith('soupsieve.')) and m is not None]

    def box(x):
        if isinstance(x, (dict, list, set, bytearray, collections.deque)) and id(x) not in seen:
            seen.add(id(x))
            boxes.append(x)

    def func(f):
        if f is None:
            return
        for dflt in (getattr(f, '__defaults__', None) or ()) + tuple((getattr(f, '__kwdefaults__', None) or {}).values()):
            box(dflt)
        for cell in getattr(f, '__closure__', None) or ():
            try:
                box(cell.cell_contents)
            except ValueError:
                pass
        for v in vars(f).values() if hasattr(f, '__dict__') else ():
            box(v)
    for m in mods:
        for name, v in list(vars(m).items()):
            if name.startswith('__'):
                continue
            if hasattr(v, 'cache_info') and callable(getattr(v, 'cache_info')):
                if id(v) not in seen:
                    seen.add(id(v))
                    caches.append(v)
                func(getattr(v, '__wrapped__', None))
            elif isinstance(v, types.FunctionType):
                func(v)
            elif isinstance(v, type) and getattr(v, '__module__', '').startswith('soupsieve'):
                for an, av in list(vars(v).items()):
                    if isinstance(av, types.FunctionType):
                        func(av)
                    elif hasattr(av, 'cache_info') and id(av) not in seen:
                        seen.add(id(av))
                        caches.append(av)
                    elif not an.startswith('__'):
                        box(av)
            else:
                box(v)
    return caches, boxes


def cliff_levels(sv):
    """A home-grown bounded memo (a dict that is cleared or trimmed when it reaches a size) behaves differently right at its capacity.  Push names
    through util.lower one at a time from the pristine state; if a watched container ever shrinks, return the fill levels around that point
    (the executions are then explored once per level).  With functools.lru_cache nothing shrinks and the answer is [WARM]."""
    caches, saved = pristine(sv)
    boxes = [b for b, _ in saved]
    LEVEL_NOW[0] = 0
    reset(sv)
    low = sv.util.lower
    prev = [len(b) for b in boxes]
    for i in range(2 * WARM):
        low('W%d' % i)
        cur = [len(b) for b in boxes]
        if any(c < p_ for c, p_ in zip(cur, prev)):
            LEVEL_NOW[0] = WARM
            return [max(i - 2, 0), max(i - 1, 0), i, WARM]
        prev = cur
    LEVEL_NOW[0] = WARM
    return [WARM]


_PRISTINE = None


def pristine(sv):
    """The containers as they are right after import, captured before the library is exercised in this process (the parent captures them before
    the workers are forked; a replay captures them before its first call).  reset() puts them back before every execution, so that an execution
    is a function of its schedule alone whatever ran earlier in the process."""
    global _PRISTINE
    if _PRISTINE is None:
        import sys
        # locks, events ... the library created at import time become cooperative ones (waiting on them is a scheduling event for the explorer)
        sched.replace_real_primitives([m for n_, m in sorted(sys.modules.items()) if (n_ == 'soupsieve' or n_.startswith('soupsieve.')) and m is not None])
        caches, boxes = discover(sv)
        _PRISTINE = (caches, [(b, copy.copy(b)) for b in boxes])
    return _PRISTINE


def make_watch(sv):
    """Cheap digest of the shared state visible from outside: every lru_cache in the package (hits, misses, size), the sizes of the containers found
    by discover(), and two interpreter settings."""
    import sys
    caches, saved = pristine(sv)
    boxes = [b for b, _ in saved]
    infos = [c.cache_info for c in caches]
    g1, g2 = sys.get_int_max_str_digits, sys.getrecursionlimit

    def watch():
        return [f() for f in infos], [len(b) for b in boxes], g1(), g2()
    watch.caches, watch.boxes = len(caches), len(boxes)
    return watch


class Harness:
    def __init__(self, sv, ops, opcode=False):
        self.sv = sv
        self.watch = make_watch(sv)
        self.hot = set()
        self.learn = True
        self.ops = ops
        self.doc = make_doc()
        self.trace_prefix = os.path.join(os.path.dirname(os.path.abspath(sv.__file__)), '')
        self.opcode_functions = ('selector_iter', 'match', 'get_name') if opcode else ()
        self.base_state = interpreter_state()
        self.solo = []
        for op in ops:
            reset(sv)
            try:
                r = ('ok', op_callable(sv, op, self.doc)())
            except Exception as e:
                r = ('raise', type(e).__name__, str(e)[:200])
            self.solo.append(observe(sv, op, r, self.doc))
        self.fresh = {}
        for op in ops:
            if op[0] != 'purge':
                try:
                    self.fresh[(op[1], op[2])] = self.fresh_parse(op)
                except Exception as e:
                    self.fresh[(op[1], op[2])] = 'raise:' + type(e).__name__
        self.outcomes = {}
        self.replayed = 0
        # learning phase: the two (three) executions without any preemption, one per starting thread, with the shared-state digest sampled at
        # every line; afterwards the writers are known by code location and sampling is switched off
        for first in range(len(ops)):
            self.run([first])
        self.watch = None
        self.learn = False
        self.hot_points = sum(1 for x in self.run([]).hot if x)

    def fresh_parse(self, op):
        sv = self.sv
        cp, ct = sv.css_parser, sv.css_types
        custom = dict(CUSTOM) if op[2] else None
        f = getattr(cp._cached_css_compile, '__wrapped__', None)
        if f is not None:
            try:
                cp.process_custom.cache_clear()
            except Exception:
                pass
            return repr(f(op[1], None, ct.CustomSelectors(custom) if custom else None, 0).selectors)
        reset(sv)
        return repr(sv.compile(op[1], custom=custom).selectors)

    def run(self, prefix):
        sv = self.sv
        reset(sv)
        s = sched.Scheduler([op_callable(sv, op, self.doc) for op in self.ops], prefix, self.trace_prefix, self.opcode_functions,
                            watch=self.watch, hot=self.hot, learn=self.learn)
        ex = s.run()
        ex.results = [observe(sv, op, r, self.doc) for op, r in zip(self.ops, ex.results)]
        if s.divergence:
            ex.results.append(('divergence', s.divergence))
        # cache afterwards: every pattern used must now compile to something equal to a fresh parse
        post = []
        for op in self.ops:
            if op[0] != 'purge':
                try:
                    c = sv.compile(op[1], custom=dict(CUSTOM) if op[2] else None)
                    post.append(repr(c.selectors) == self.fresh[(op[1], op[2])])
                except Exception as e:
                    post.append(True if self.fresh[(op[1], op[2])] == 'raise:' + type(e).__name__ else 'raise:' + type(e).__name__)
        ex.results.append(('cache-after', post))
        st = interpreter_state()
        ex.results.append(('interpreter-state', st == self.base_state, () if st == self.base_state else (self.base_state, st)))
        if st != self.base_state:
            restore_interpreter_state(self.base_state)
        return ex

    def check(self, ex):
        if ex.hung:
            return {'kind': 'hang'}, 'execution did not finish (deadlock or runaway loop)'
        n = len(self.ops)
        key = repr(ex.results)
        self.outcomes[key] = self.outcomes.get(key, 0) + 1
        for i in range(n):
            if ex.results[i] != self.solo[i]:
                other = [self.ops[j][1] for j in range(n) if j != i]
                got = ex.results[i]
                kind = 'exception-caused-by-other-thread' if got[0] == 'raise' else 'different-result'
                return ({'kind': kind, 'op': self.ops[i][0], 'exc': got[1] if got[0] == 'raise' else ''},
                        f'thread {i} {self.ops[i][0]}({self.ops[i][1]!r}) with {other} running: got {str(got)[:160]}, alone it gives {str(self.solo[i])[:100]}')
        for r in ex.results[n:]:
            if r[0] == 'divergence':
                return {'kind': 'replay-divergence'}, r[1]
            if r[0] == 'interpreter-state' and not r[1]:
                return {'kind': 'interpreter-state-left-changed'}, f'after the schedule process-wide interpreter settings differ: before {r[2][0]}, after {r[2][1]} (int/str digit limit, recursion limit, switch interval, decimal precision, locale)'
            if r[0] == 'cache-after' and not all(x is True for x in r[1]):
                return {'kind': 'wrong-object-left-in-cache'}, f'after the schedule, compiling again from the cache gives {r[1]} (True = equals a fresh parse)'
        return None


def pairs(tier):
    out = []
    if tier == 'quick':
        # unordered pairs: which thread starts is itself a (free) scheduling choice, so (a, b) and (b, a) explore the same schedules
        for a, b in itertools.combinations_with_replacement(range(8), 2):
            if b == 7 and a < 5:
                continue        # the nested custom alias is the longest compile: paired with the plain pattern, the other alias and itself (thorough: with all)
            out.append(((COMPILE_OPS[a], COMPILE_OPS[b]), 1, False))
        for m in MATCH_OPS[:9]:
            out.append(((m, COMPILE_OPS[0]), 1, False))
            out.append(((m, m), 1, False))
        out.append(((COMPILE_OPS[8], COMPILE_OPS[8]), 1, False))
        out.append(((COMPILE_OPS[8], COMPILE_OPS[5]), 1, False))
        I = MATCH_OPS[9:]
        for a, b in ((0, 0), (2, 2), (3, 3), (4, 4), (5, 5), (5, 3)):
            out.append(((I[a], I[b]), 1, False))
        out.append(((MATCH_OPS[0], MATCH_OPS[1]), 1, False))
        out.append(((MATCH_OPS[4], COMPILE_OPS[7]), 1, False))
        out.append(((MATCH_OPS[6], MATCH_OPS[7]), 1, False))
        out.append(((MATCH_OPS[8], MATCH_OPS[7]), 1, False))
        return out
    # unordered pairs: which thread starts is itself a (free) scheduling choice, so (a, b) and (b, a) explore the same schedules
    for a, b in itertools.combinations_with_replacement(range(len(COMPILE_OPS)), 2):
        out.append(((COMPILE_OPS[a], COMPILE_OPS[b]), 1, False))
        if b < 6:
            out.append(((COMPILE_OPS[a], COMPILE_OPS[b]), 1, True))        # opcode granularity in the tokenizer
    M, I = MATCH_OPS[:9], MATCH_OPS[9:]
    for a, b in itertools.combinations_with_replacement(range(len(M)), 2):
        out.append(((M[a], M[b]), 1, False))
    for a in M:
        for b in COMPILE_OPS[:3] + COMPILE_OPS[6:]:
            out.append(((a, b), 1, False))
    for a, b in itertools.combinations_with_replacement(range(len(I)), 2):
        out.append(((I[a], I[b]), 1, False))
    for a in I:
        for b in COMPILE_OPS[:1] + MATCH_OPS[:2]:
            out.append(((a, b), 1, False))
    core = [0, 1, 5]        # bound 2 costs the square of the number of scheduling points: the short compiles only
    for a, b in itertools.combinations_with_replacement(core, 2):
        out.append(((COMPILE_OPS[a], COMPILE_OPS[b]), 2, False))
    for a, b, c in itertools.combinations(range(6), 3):
        out.append(((COMPILE_OPS[a], COMPILE_OPS[b], COMPILE_OPS[c]), 1, False))
    out.append(((COMPILE_OPS[6], COMPILE_OPS[7], MATCH_OPS[4]), 1, False))
    return out


def shards(tier, seed):
    from .. import common
    pristine(common.bind())         # before the workers are forked and before anything is compiled
    out = []
    for pi, (ops, bound, opcode) in enumerate(pairs(tier)):
        if bound >= 2:
            # sharded by the index of the first deviating scheduling point; the last range is open-ended so that nothing is left out
            for lo in range(0, 900, 30):
                out.append((tier, pi, (lo, lo + 30 if lo + 30 < 900 else 10 ** 9)))
        else:
            out.append((tier, pi, None))
    # longest explorations first (custom aliases parse nested selectors: several times more scheduling points)
    weight = lambda d: -sum(3 if o[2] else (2 if o[0] != 'compile' else 1) for o in pairs(tier)[d[1]][0])
    out.sort(key=weight)
    return out


def shard_weight(desc):
    # custom aliases parse nested selectors (several times more scheduling points); match operations are shorter than compiles
    return sum(3 if o[2] else (2 if o[0] == 'compile' else 1) for o in pairs(desc[0])[desc[1]][0])


def run_shard(desc):
    from .. import common
    sv = common.bind()
    warnings.simplefilter('ignore')
    tier, pi, first_dev = desc
    ops, bound, opcode = pairs(tier)[pi]
    res = shard.Result()
    levels = cliff_levels(sv)
    h = Harness(sv, ops, opcode)
    replay_every = 97
    counter = [0]
    nondet = []

    def on_execution(ex):
        counter[0] += 1
        res.count('thread_steps', ex.steps)
        if counter[0] % replay_every == 1:
            again = h.run(list(ex.choices))
            h.replayed += 1
            # at opcode granularity CPython's adaptive interpreter changes how many opcode events a function produces from one run to the
            # next, so only the observations (not the number of scheduling points) must repeat there
            if again.results != ex.results or (not opcode and again.choices != ex.choices):
                nondet.append((list(ex.choices), str(ex.results)[:200], str(again.results)[:200]))
    st = None
    for level in levels:
        LEVEL_NOW[0] = level
        st1 = sched.explore(h.run, h.check, bound, first_dev=first_dev, on_execution=on_execution, max_executions=400000)
        for f in st1['failures']:
            f[1][0]['fill_level'] = level
        if st is None:
            st = st1
        else:
            for k in ('executions', 'choice_points'):
                st[k] += st1[k]
            st['failures'] += st1['failures']
            st['capped'] = st['capped'] or st1['capped']
            st['max_points'] = max(st['max_points'], st1['max_points'])
        if st['failures']:
            break
    if len(levels) > 1:
        res.count('tuples_explored_at_several_fill_levels', 1)
    if not st['failures']:
        LEVEL_NOW[0] = WARM
    # second pass: two preemptions, both next to a line that writes watched shared state (conflict-directed; see make_watch).  quick: only
    # where the number of such points keeps the pass small; thorough: every tuple explored at bound 1
    HOT_LIMIT = 35 if tier == 'quick' else 70
    if bound == 1 and not opcode and not st['failures'] and first_dev is None:
        # the precompiled matches exist for this pass (short threads): they always get it
        if h.hot_points and (h.hot_points <= HOT_LIMIT or all(o[0].startswith('cmatch') for o in ops)):
            st2 = sched.explore(h.run, h.check, 2, on_execution=on_execution, max_executions=400000, hot_only=True)
            res.count('schedules_two_preemptions_at_conflicts', st2['executions'])
            res.count('tuples_with_conflict_pass', 1)
            for k in ('executions', 'choice_points'):
                st[k] += st2[k]
            st['failures'] += st2['failures']
            st['capped'] = st['capped'] or st2['capped']
        elif h.hot_points:
            res.count('tuples_without_conflict_pass', 1)
    res.extra['writer_lines'] = len(h.hot)
    res.evaluations += st['executions']
    res.count('schedules', st['executions'])
    res.count('choice_points', st['choice_points'])
    res.count('replayed_twice', h.replayed)
    res.count('capped', 1 if st['capped'] and not st['failures'] else 0)
    res.nontrivial += 1 if st['executions'] > 2 else 0
    res.extra['max_points'] = st['max_points']
    res.outcome('distinct-outcomes=%d' % len(h.outcomes))
    if nondet:
        res.extra['harness_error'] = f'non-deterministic replay for ops {ops}: {nondet[0]}'
    for choices, (sig, detail) in st['failures'][:3]:
        sig = dict(sig, threads=len(ops), same_pattern=len({o[1] for o in ops}) == 1)
        level = sig.pop('fill_level', WARM) if isinstance(sig, dict) else WARM
        res.fail({'pair': pi, 'tier': tier, 'ops': [list(o) for o in ops], 'choices': choices, 'opcode': opcode, 'fill_level': level}, dict(sig, at_capacity_cliff=level != WARM),
                 f'{[o[0] + "(" + o[1] + ")" for o in ops]} schedule with {sum(1 for c in choices if c)} deviation(s): {detail}')
    if pi % 9 == 0 and first_dev in (None, (0, 30)):
        res.sample({'threads': [o[0] + '(' + repr(o[1]) + ')' for o in ops], 'preemption_bound': bound, 'schedules': st['executions'],
                    'scheduling_points_per_execution': st['max_points'], 'distinct_outcomes': len(h.outcomes)})
    return res


def replay(case):
    from .. import common
    sv = common.bind()
    warnings.simplefilter('ignore')
    ops = [tuple(o) for o in case['ops']]
    pristine(sv)
    h = Harness(sv, ops, case.get('opcode', False))
    LEVEL_NOW[0] = case.get('fill_level', WARM)
    ex1 = h.run(case['choices'])
    ex2 = h.run(case['choices'])
    f = h.check(ex1)
    if f is None:
        return None
    if ex1.results != ex2.results:
        return {'kind': 'non-deterministic-replay'}, 'the same schedule gave two different observations'
    return f


def check(tier, seed):
    res, info = shard.run(__name__, shards(tier, seed), order_seed=seed)
    sch = res.counters.get('schedules', 0)
    cov = {
        'states': max(res.counters.get('choice_points', 0), 1), 'transitions': max(res.counters.get('thread_steps', 0), 1),
        'traces_validated_against_impl': sch, 'evaluations': res.evaluations,
        'rule': ('states = scheduling points at which alternatives were enumerated (nodes of the explored schedule tree); transitions = thread steps '
                 'executed over all schedules; every schedule is an execution of the real threads; non-trivial = operation tuples for which more than '
                 'two schedules exist; a fixed fraction of schedules is replayed a second time to confirm determinism'),
        'schedules': sch, 'replayed_twice': res.counters.get('replayed_twice', 0),
        'operation_tuples': len(pairs(tier)), 'preemption_bound_completed': ('1 (all tuples); 2 with both preemptions next to a line that writes watched shared state (tuples with <= 35 such points)' if tier == 'quick'
                                                else '1 (all tuples); 2 next to writers of watched shared state (tuples with <= 70 such points); 2 unrestricted (core compile pairs)'),
        'threads': 2 if tier == 'quick' else '2 and 3', 'granularity': 'source line' if tier == 'quick' else 'source line; opcode inside tokenizer functions',
        'schedules_two_preemptions_at_conflicts': res.counters.get('schedules_two_preemptions_at_conflicts', 0),
        'tuples_with_conflict_pass': res.counters.get('tuples_with_conflict_pass', 0), 'tuples_without_conflict_pass': res.counters.get('tuples_without_conflict_pass', 0),
        'capped_explorations': res.counters.get('capped', 0), 'exhaustive': not info['cap_hit'] and not res.counters.get('capped', 0),
    }
    return {'result': res, 'coverage': cov, 'info': info,
            'assumptions': ['switches inside C code (re, lru_cache) are not modelled: they hold the GIL', '<= 3 threads, <= 2 preemptions',
                            'a cooperative scheduler creates happens-before edges, so pure data races without an observable effect are not detected']}
