"""E3: stateless exploration of thread interleavings of the REAL code under a scheduler we own.

Every thread runs under sys.settrace; each 'line' event (optionally each opcode in named functions) in a frame of the tree
under test is a scheduling point at which the running thread may hand the baton (a per-thread semaphore) to another
thread, as a recorded choice sequence dictates.  Only one thread runs at a time, so an execution is a deterministic
function of its choice sequence.  Exploration is depth-first over choice sequences with iterative preemption bounding:
switching away from a thread that could continue costs one preemption; switches at a thread's end are free.
"""
from __future__ import annotations
import sys
import threading


class Execution:
    __slots__ = ('choices', 'points', 'results', 'steps', 'hung', 'hot')

    def __init__(self):
        self.choices = []     # chosen index at each choice point
        self.points = []      # (kind, enabled_count, running_still_enabled)
        self.hot = []         # per choice point: is it next to a step that wrote watched shared state (see Scheduler.watch)
        self.results = None
        self.steps = 0
        self.hung = False


class Scheduler:
    def __init__(self, ops, prefix, trace_prefix, opcode_functions=(), max_steps=200000, watch=None, hot=None, learn=True):
        self.ops = ops
        self.n = len(ops)
        self.prefix = list(prefix)
        self.trace_prefix = trace_prefix
        self.opcode_functions = set(opcode_functions)
        self.sems = [threading.Semaphore(0) for _ in range(self.n)]
        self.done_evt = threading.Event()
        self.alive = [True] * self.n
        self.running = None
        self.ex = Execution()
        self.results = [None] * self.n
        self.max_steps = max_steps
        self.divergence = None
        # conflict detection: `watch()` returns a cheap digest of the shared state the harness can see (caches, interpreter settings, module-level
        # containers); a source line after which the digest differs is a writer and goes into `hot` (code locations, shared between executions)
        self.watch = watch
        self.hot = hot if hot is not None else set()
        self.learn = learn
        self.digest = None
        self.prev_loc = None
        self.prev_loc_of = [None] * self.n
        self.cur_hot = False

    # ---- choice
    def _choose(self, kind, enabled, running_enabled):
        pos = len(self.ex.choices)
        if pos < len(self.prefix):
            c = self.prefix[pos]
            if c >= len(enabled):
                self.divergence = f'choice {c} at point {pos} but only {len(enabled)} thread(s) enabled'
                c = 0
        else:
            c = 0
        self.ex.choices.append(c)
        self.ex.points.append((kind, len(enabled), running_enabled))
        self.ex.hot.append(self.cur_hot if kind == 'line' else False)
        return enabled[c]

    def _enabled(self, tid):
        """Canonical order: the running thread first if still enabled, then ascending ids."""
        rest = [i for i in range(self.n) if self.alive[i] and i != tid]
        return ([tid] if tid is not None and self.alive[tid] else []) + rest

    def point(self, tid, frame=None):
        if frame is not None and (self.watch is not None or self.hot):
            loc = (frame.f_code.co_filename, frame.f_lineno)
            if self.watch is not None:
                d = self.watch()
                if d != self.digest:
                    if self.learn and self.prev_loc is not None:
                        self.hot.add(self.prev_loc)
                    self.digest = d
            # a preemption here separates the line just executed by this thread from the line it is about to execute
            self.cur_hot = loc in self.hot or self.prev_loc_of[tid] in self.hot
            self.prev_loc = loc
            self.prev_loc_of[tid] = loc
        self.ex.steps += 1
        if self.ex.steps > self.max_steps:
            self.ex.hung = True
            raise RuntimeError('scheduler step budget exceeded')
        enabled = self._enabled(tid)
        if len(enabled) <= 1:
            return
        nxt = self._choose('line', enabled, True)
        if nxt != tid:
            self.running = nxt
            self.sems[nxt].release()
            self.sems[tid].acquire()

    # ---- tracing
    def _global_trace(self, tid):
        tp = self.trace_prefix
        opf = self.opcode_functions

        def local(frame, event, arg):
            if event == 'line' or event == 'opcode':
                self.point(tid, frame)
            return local

        def glob(frame, event, arg):
            if event == 'call':
                code = frame.f_code
                if code.co_filename.startswith(tp):
                    if code.co_name in opf:
                        frame.f_trace_opcodes = True
                    return local
            return None
        return glob

    def _thread(self, tid):
        self.sems[tid].acquire()
        try:
            sys.settrace(self._global_trace(tid))
            try:
                r = ('ok', self.ops[tid]())
            except BaseException as e:   # noqa: B902
                r = ('raise', type(e).__name__, str(e)[:200])
            finally:
                sys.settrace(None)
            self.results[tid] = r
        finally:
            self.alive[tid] = False
            enabled = self._enabled(None)
            if not enabled:
                self.done_evt.set()
            else:
                nxt = enabled[0] if len(enabled) == 1 else self._choose('end', enabled, False)
                self.running = nxt
                self.sems[nxt].release()

    def run(self, timeout=60):
        ts = [threading.Thread(target=self._thread, args=(i,), daemon=True) for i in range(self.n)]
        for t in ts:
            t.start()
        if self.watch is not None:
            self.digest = self.watch()
        first = self._choose('start', list(range(self.n)), False) if self.n > 1 else 0
        self.running = first
        self.sems[first].release()
        if not self.done_evt.wait(timeout):
            self.ex.hung = True
        for t in ts:
            t.join(0.5 if self.ex.hung else 5)
        self.ex.results = list(self.results)
        return self.ex


def explore(run, check, bound, first_dev=None, on_execution=None, max_executions=None, hot_only=False):
    """Depth-first over choice sequences.  run(prefix) -> Execution; check(ex) -> None | failure.
    bound = max preemptions.  first_dev = (lo, hi) restricts the index of the first deviating 'line' choice (for sharding).
    hot_only: preempt only at points flagged in Execution.hot (next to a write of watched shared state); the free choices (which thread
    starts, which continues when one ends) stay unrestricted.
    Returns dict(executions, choice_points, failures, capped)."""
    stats = {'executions': 0, 'choice_points': 0, 'failures': [], 'capped': False, 'max_points': 0}

    def preempts(ex, upto):
        return sum(1 for (kind, n, re_), c in zip(ex.points[:upto], ex.choices[:upto]) if kind == 'line' and c != 0)

    def rec(prefix):
        if max_executions and stats['executions'] >= max_executions:
            stats['capped'] = True
            return
        ex = run(prefix)
        stats['executions'] += 1
        stats['max_points'] = max(stats['max_points'], len(ex.points))
        if on_execution:
            on_execution(ex)
        f = check(ex)
        if f is not None:
            stats['failures'].append((list(ex.choices), f))
            if len(stats['failures']) >= 6:
                stats['capped'] = True
                return
        used = preempts(ex, len(prefix))
        had_dev = any(k == 'line' and c != 0 for (k, n, r), c in zip(ex.points[:len(prefix)], ex.choices[:len(prefix)]))
        line_index = sum(1 for (k, n, r) in ex.points[:len(prefix)] if k == 'line')
        for i in range(len(prefix), len(ex.points)):
            kind, n_enabled, running_enabled = ex.points[i]
            stats['choice_points'] += 1
            cost = used + (1 if kind == 'line' else 0)
            if kind == 'line':
                li = line_index
                line_index += 1
            if cost > bound:
                continue
            if hot_only and kind == 'line' and not (i < len(ex.hot) and ex.hot[i]):
                continue
            if kind == 'line' and not had_dev and first_dev is not None and not (first_dev[0] <= li < first_dev[1]):
                continue
            for alt in range(1, n_enabled):
                rec(list(ex.choices[:i]) + [alt])
                if stats['capped']:
                    return
    rec([])
    return stats
