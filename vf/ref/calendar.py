"""Independent proleptic-Gregorian / ISO-8601 arithmetic and HTML date-time-number string validity (no regex, no datetime)."""
from __future__ import annotations

DIGITS = set('0123456789')


def leap(y):
    return (y % 4 == 0 and y % 100 != 0) or y % 400 == 0


def days_in_month(y, m):
    if m == 2:
        return 29 if leap(y) else 28
    return 30 if m in (4, 6, 9, 11) else 31


def days_before_year(y):
    """Days from 0001-01-01 to y-01-01."""
    y -= 1
    return y * 365 + y // 4 - y // 100 + y // 400


def weekday_jan1(y):
    """0 = Monday ... 6 = Sunday (0001-01-01 was a Monday in the proleptic Gregorian calendar)."""
    return days_before_year(y) % 7


def weeks_in_year(y):
    w = weekday_jan1(y)
    return 53 if w == 3 or (w == 2 and leap(y)) else 52


def dec31_in_week1(y):
    """31 December belongs to ISO week 1 of the following year."""
    wd = (weekday_jan1(y) + (365 if leap(y) else 364)) % 7     # weekday of 31 Dec
    return wd <= 2                                               # Mon, Tue, Wed -> week 1 of next year


def _num(s, n=None, at_least=None):
    if not s or any(c not in DIGITS for c in s):
        return None
    if n is not None and len(s) != n:
        return None
    if at_least is not None and len(s) < at_least:
        return None
    return int(s) if len(s) < 4000 else None


def parse(itype, s):
    """-> comparable tuple, or None when s is not a valid string of that type (HTML 'valid ... string')."""
    if s is None:
        return None
    if itype == 'date':
        p = s.split('-')
        if len(p) != 3:
            return None
        y, m, d = _num(p[0], at_least=4), _num(p[1], 2), _num(p[2], 2)
        if None in (y, m, d) or y < 1 or not 1 <= m <= 12 or not 1 <= d <= days_in_month(y, m):
            return None
        return (y, m, d)
    if itype == 'month':
        p = s.split('-')
        if len(p) != 2:
            return None
        y, m = _num(p[0], at_least=4), _num(p[1], 2)
        if None in (y, m) or y < 1 or not 1 <= m <= 12:
            return None
        return (y, m)
    if itype == 'week':
        p = s.split('-')
        if len(p) != 2 or not p[1].startswith('W'):
            return None
        y, w = _num(p[0], at_least=4), _num(p[1][1:], 2)
        if None in (y, w) or y < 1 or not 1 <= w <= weeks_in_year(y):
            return None
        return (y, w)
    if itype == 'time':
        p = s.split(':')
        if len(p) != 2:
            return None
        h, mi = _num(p[0], 2), _num(p[1], 2)
        if None in (h, mi) or h > 23 or mi > 59:
            return None
        return (h, mi)
    if itype == 'datetime-local':
        if s.count('T') != 1:
            return None
        d, t = s.split('T')
        a, b = parse('date', d), parse('time', t)
        if a is None or b is None:
            return None
        return a + b
    if itype in ('number', 'range'):
        t = s[1:] if s.startswith('-') else s
        if not t:
            return None
        if '.' in t:
            a, _, b = t.partition('.')
            if (a and any(c not in DIGITS for c in a)) or not b or any(c not in DIGITS for c in b):
                return None
        elif any(c not in DIGITS for c in t):
            return None
        return (float(s),)
    return None


RANGE_TYPES = ('date', 'month', 'week', 'time', 'datetime-local', 'number', 'range')


def out_of_range(itype, mn, mx, value):
    """mn, mx, value are parsed tuples or None. HTML: an invalid or missing value is never out of range."""
    if value is None:
        return False
    if itype == 'time' and mn is not None and mx is not None and mn > mx:
        return mx < value < mn
    return (mn is not None and value < mn) or (mx is not None and value > mx)
