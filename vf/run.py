"""CLI:  python -m vf.run <Cxx> --tier quick|thorough      (exit 0 held / 1 VIOLATION / 2 harness failure)
          python -m vf.run <Cxx> --replay <file>            (exit 1 if the recorded case still violates the property)
"""
from __future__ import annotations
import argparse
import hashlib
import importlib
import json
import os
import subprocess
import sys
import time
from concurrent.futures import ThreadPoolExecutor

from . import common

MAX_CONFIRM = 40
MAX_PRINT = 8


def sigkey(sig):
    return json.dumps(sig, sort_keys=True, default=repr)


def write_replay(prop, w):
    d = os.path.join(common.VERIF, 'replays')
    os.makedirs(d, exist_ok=True)
    body = json.dumps({'property': prop, 'case': w['case'], 'sig': w['sig'], 'detail': w.get('detail', '')},
                      indent=1, sort_keys=True, default=repr)
    h = hashlib.sha1(body.encode()).hexdigest()[:12]
    path = os.path.join(d, f'{prop}-{h}.json')
    with open(path, 'w') as f:
        f.write(body + '\n')
    return path


def confirm(prop, path):
    """Re-execute the case alone in a fresh interpreter; True iff it still violates the property."""
    try:
        p = subprocess.run([common.PY, '-m', 'vf.run', prop, '--replay', path], cwd=common.VERIF,
                           env=common.child_env(), capture_output=True, text=True, timeout=300)
    except subprocess.TimeoutExpired:
        return True, 'replay timed out (300 s)'
    return p.returncode == 1, (p.stdout + p.stderr)[-2000:]


def main(argv=None):
    ap = argparse.ArgumentParser()
    ap.add_argument('prop')
    ap.add_argument('--tier', default=os.environ.get('VERIF_TIER', 'quick'), choices=['quick', 'thorough'])
    ap.add_argument('--replay')
    args = ap.parse_args(argv)
    common.ensure_env()
    prop = args.prop.upper()
    import_error = None
    try:
        common.bind()           # soupsieve first, then bs4: the reverse order is itself something C16 checks
    except Exception as e:
        import_error = repr(e)
    mod = importlib.import_module('vf.props.' + prop.lower())

    if args.replay:
        with open(args.replay) as f:
            rec = json.load(f)
        if import_error:  # the tree cannot even be imported
            print(f'REPRODUCED property={prop} import failure: {import_error}')
            return 1
        out = mod.replay(rec['case'])
        if out:
            print(f'REPRODUCED property={prop} sig={sigkey(out[0])}\n  {out[1]}')
            return 1
        print(f'NOT-REPRODUCED property={prop}')
        return 0

    from . import evidence, findings
    seed = common.seed()
    t0 = time.time()
    if import_error and not getattr(mod, 'SURVIVES_IMPORT_FAILURE', False):
        # The tree does not import: every property about its behaviour is violated in the plainest way.
        w = {'case': {'kind': 'import'}, 'sig': {'kind': 'import-failure'}, 'detail': import_error}
        path = write_replay(prop, w)
        evidence.write(prop, args.tier, seed, mod.LEVEL,
                       {'evaluations': 1, 'distinct_nontrivial': 0, 'rule': 'import of the tree under test failed',
                        'samples': [import_error], 'states': 1, 'transitions': 1,
                        'traces_validated_against_impl': 0},
                       ['tree under test must import'], time.time() - t0, 1)
        print(f'VIOLATION property={prop} replay={path}')
        print(f'  soupsieve cannot be imported from {common.REPO}: {import_error}')
        return 1

    out = mod.check(args.tier, seed)
    res = out['result']
    violations = 0
    known_printed = set()
    unreproduced = []
    groups = {}
    for f in res.failures:
        groups.setdefault(sigkey(f['sig']), []).append(f)
    keys = sorted(groups)
    if seed:
        import random
        random.Random(seed).shuffle(keys)
    picked = []
    for k in keys[:MAX_CONFIRM]:
        w = min(groups[k], key=lambda f: (len(json.dumps(f['case'], default=repr)), json.dumps(f['case'], default=repr)))
        if hasattr(mod, 'shrink'):
            try:
                w = dict(w, case=mod.shrink(w['case']))
            except Exception:
                pass
        picked.append((k, w, write_replay(prop, w)))
    with ThreadPoolExecutor(8) as ex:
        confirmed = list(ex.map(lambda t: confirm(prop, t[2]), picked))
    lines = []
    for (k, w, path), (ok, log) in zip(picked, confirmed):
        if not ok:
            unreproduced.append({'sig': w['sig'], 'replay': path})
            sys.stderr.write(f'unreproduced candidate property={prop} replay={path}\n')
            continue
        kf = findings.match(prop, w['sig'])
        if kf is not None:
            if kf['what'] not in known_printed:
                known_printed.add(kf['what'])
                lines.append(f"KNOWN-FINDING: property={prop} {kf['what']}")
        else:
            violations += 1
            if violations <= MAX_PRINT:
                lines.append(f'VIOLATION property={prop} replay={path}')
                lines.append(f"  sig={k}")
                lines.append(f"  {str(w.get('detail', ''))[:600]}")
            elif violations == MAX_PRINT + 1:
                lines.append('  (further violations: see replays/ and the evidence file)')
    extra_groups = len(keys) - len(picked)
    if extra_groups > 0:
        lines.append(f'  (+{extra_groups} further failure signature classes not individually replayed)')
    harness_error = res.extra.get('harness_error')

    cov = dict(out['coverage'])
    cov.setdefault('evaluations', res.evaluations)
    cov.setdefault('distinct_nontrivial', res.nontrivial)
    cov.setdefault('samples', res.samples or ['(none)'])
    cov['unspecified_skipped'] = res.unspecified
    cov['outcome_classes'] = dict(sorted(res.outcomes.items(), key=lambda kv: str(kv[0])))
    cov['counters'] = {k: v for k, v in sorted(res.counters.items()) if k != 'shard_seconds_x1000'}
    cov['failing_cases'] = res.failure_count
    cov['failure_signature_classes'] = len(keys)
    cov['known_findings_observed'] = sorted(known_printed)
    cov['unreproduced_candidates'] = unreproduced
    cov.update(out.get('info', {}))
    wall = time.time() - t0
    evidence.write(prop, args.tier, seed, mod.LEVEL, cov, out.get('assumptions', []), wall, violations)
    for ln in lines:
        print(ln)
    summ = {k: cov.get(k) for k in ('evaluations', 'distinct_nontrivial', 'states', 'transitions',
                                    'traces_validated_against_impl') if k in cov}
    print(f'{prop} tier={args.tier} seed={seed} {summ} failing_cases={res.failure_count} '
          f'violations={violations} known={len(known_printed)} wall={wall:.1f}s')
    if harness_error:
        print('HARNESS-ERROR ' + str(harness_error)[:1500], file=sys.stderr)
        return 1 if violations else 2
    return 1 if violations else 0


if __name__ == '__main__':
    sys.exit(main())
