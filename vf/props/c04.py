"""C04 — answers do not depend on query history; matching never mutates the tree.

E2 (explicit-state search on the real matcher).  The stateful object is one live CSSMatch (three memo tables, the swapped
namespace map, the iframe flag).  Transitions: match(el) for every element of the document, any order, repetition
allowed.  BFS from the fresh matcher, states deduplicated by a generic digest of vars(matcher) plus every mutable
module/class-level container of css_match (so a hoisted memo table is seen without being named).  On EVERY transition:
  (i)   the answer equals the answer of a brand-new matcher on a pristine copy of the document asked only that question;
  (ii)  afterwards the matcher's namespace map and iframe flag equal their initial values;
  (iii) the document fingerprint (serialisation, node identities, parent/sibling links, attribute dict identity, contents
        and value types) is unchanged.
API layer: every sequence of <= 2 (thorough 3) public calls from {select, match, filter, closest} x selectors x targets on one
document; each answer must equal the same call issued first on a pristine copy, and select(t) must agree element-wise
with match.
"""
from __future__ import annotations
import itertools
import warnings
from ..engine import shard, lts
from ..gen import trees as T
from . import _sel

ID = 'C04'
LEVEL = 'model_checking'
XHTML = 'http://www.w3.org/1999/xhtml'


def E(name, attrs=(), *kids):
    return ('e', name, tuple(attrs), tuple(kids))


def inp(**kw):
    return E('input', tuple((k.rstrip('_'), v) for k, v in kw.items()))


META = E('meta', (('http-equiv', 'content-language'), ('content', 'en')))


def documents():
    """name -> (forest, xml?, detached?)"""
    d = {}
    body = E('body', (), E('p', (('class', ('x',)),), ('t', 'a')), E('p', (), ('t', 'b')), E('div', (), E('p', (), ('t', 'c')), E('p')))
    d['meta-pragma'] = ((E('html', (), E('head', (), META), body),), False, False)
    d['no-language'] = ((E('html', (), E('head'), body),), False, False)
    d['lang-depths'] = ((E('html', (('lang', 'en'),), E('head'), E('body', (), E('p', (('lang', ''),), E('b'), E('b')),
                                                                     E('p', (('lang', 'de-DE'),), E('i')), E('p'), E('p'))),), False, False)
    form = E('form', (), inp(type='submit'), E('button', (('type', 'submit'),)), inp(type='text'))
    d['twin-forms'] = ((E('html', (), E('body', (), form, form, E('div', (), form))),), False, False)
    d['three-submits'] = ((E('form', (), E('div', (), inp(type='SUBMIT'), inp(type='submit')), E('button', (('type', 'submit'),)),
                             E('button')),), False, False)
    # boolean attributes count by presence: the checked members carry non-canonical values on purpose
    radios = [inp(type='radio', name='n'), inp(type='radio', name='n'), inp(type='radio', name='m', checked='yes'),
              inp(type='radio', name='m'), inp(type='radio'), inp(type='radio', name='')]
    d['radio-groups'] = ((E('html', (), E('body', (), E('form', (), *radios), E('form', (), *radios[:4]),
                                            inp(type='radio', name='n'), inp(type='radio', name='m'),
                                            inp(type='checkbox', indeterminate=''), E('progress'))),), False, False)
    # a small group of its own (keeps the state search of the big document tractable): checked member with a non-canonical value, attributes in another order
    d['radio-noncanonical'] = ((E('form', (), inp(type='radio', name='k'), inp(checked='false', name='k', type='radio'), inp(type='radio', name='k'), inp(type='radio', name='j')),
                                inp(type='radio', name='k')), False, False)
    inner = E('html', (('lang', 'fr'),), E('body', (), E('form', (), inp(type='submit'), inp(type='radio', name='n')), E('p')))
    d['iframe'] = ((E('html', (('lang', 'en'),), E('body', (), E('form', (), inp(type='submit'), inp(type='radio', name='n', checked=''),
                                                                   E('iframe', (), inner)), E('p', (('dir', 'rtl'),), E('span')))),),
                   False, False)
    d['xml-class-strings'] = ((E('r', ((('xml', 'lang', 'http://www.w3.org/XML/1998/namespace'), 'en'),),
                                 E('e', (('class', 'big  red'),)), E('e', (('class', 'big  red'),)), E('e', (('class', 'red'), ('id', 'i'))),
                                 E('f', (), E('e', (('class', ' big'),)))),), True, False)
    d['html-class-strings'] = ((E('div', (), E('p', (('class', 'big  red'),)), E('p', (('class', 'big  red'),)), E('p', (('class', ('a', 'b')),)),
                                  E('p', (('id', 'i'), ('class', 'red\tbig')))),), False, False)
    d['ranges'] = ((E('form', (), inp(type='number', min='1', max='5', value='3'), inp(type='number', min='1', value='0'),
                      inp(type='date', min='2020-01-01', value='2019-12-31'), inp(min='1', value='0'),
                      inp(type='text', placeholder='p'), inp(type='text', placeholder='p', value='v'), E('textarea', (('placeholder', 'p'),))),),
                   False, False)
    d['parentless'] = ((E('div', (('lang', 'en'),), E('form', (), inp(type='submit'), inp(type='radio', name='n')), E('p'), E('p')),), False, True)
    d['adjacent-text'] = ((E('div', (), E('p', (), ('t', 'a'), ('t', 'b'), E('b', (), ('t', 'c'), ('t', ''), ('t', 'd'))), E('p', (), ('t', 'ab')), ('t', 'x'), ('t', 'y')),), False, False)
    d['dir-auto'] = ((E('html', (), E('body', (), E('p', (('dir', 'auto'),), ('t', 'אב')), E('p', (('dir', 'auto'),), ('t', 'ab')),
                                        E('bdi', (), ('t', 'א')), E('p', (('dir', 'rtl'),), E('span'), E('span', (('dir', 'ltr'),))))),), False, False)
    return d


SELECTORS = [
    ':lang("")', ':lang(en)', ':lang("*-DE", fr)', ':default', ':indeterminate', ':root', ':dir(ltr)', ':dir(rtl)',
    'p:dir(ltr), a', ':is(:default, :indeterminate)', ':not(:default)', 'form :default', 'input:indeterminate',
    ':has(:default)', ':checked', ':enabled', ':disabled', ':in-range', ':out-of-range', ':placeholder-shown',
    ':read-write', ':read-only', ':required', ':optional', '.big', '.red', '.x', '[class="big  red"]', '[class~=big]', '#i',
    ':nth-child(2)', ':only-child', ':nth-last-of-type(1)', ':nth-child(2 of .big)', 'p', '*', ':empty', ':scope > *',
    ':-soup-contains(a)', ':-soup-contains-own(b)', 'e', 'e + e', 'p ~ p', ':not(.big)', 'form > input:first-child',
    ':lang(en):default', ':indeterminate:not(:checked)', ':link', ':any-link',
]
QUICK_SELECTORS = [0, 1, 3, 4, 5, 6, 8, 9, 10, 13, 14, 15, 17, 19, 20, 24, 27, 28, 30, 33, 37, 38, 39, 41, 45]


def canon(v, index, depth=0):
    import bs4
    if depth > 6:
        return 'deep'
    if isinstance(v, bs4.element.PageElement):
        return ('node', index.get(id(v), 'foreign'))
    if isinstance(v, (str, int, float, bool, type(None), bytes)):
        return v
    if isinstance(v, (list, tuple)):
        return (type(v).__name__,) + tuple(canon(x, index, depth + 1) for x in v)
    if isinstance(v, dict) or hasattr(v, 'items') and hasattr(v, 'keys'):
        try:
            return ('map',) + tuple(sorted((repr(canon(k, index, depth + 1)), canon(x, index, depth + 1)) for k, x in v.items()))
        except Exception:
            return ('map?', len(v))
    if isinstance(v, (set, frozenset)):
        return ('set',) + tuple(sorted(repr(canon(x, index, depth + 1)) for x in v))
    return ('obj', type(v).__name__)


def node_index(top):
    idx = {id(top): -1}
    k = 0
    for n in top.descendants:
        idx[id(n)] = k
        k += 1
    return idx


def fingerprint(top):
    """Everything a query could disturb: serialisation, identity and links of every node, attribute dicts."""
    import bs4
    out = [str(top)]
    for n in itertools.chain([top], top.descendants):
        rec = [id(n), id(n.parent) if n.parent is not None else None,
               id(n.next_sibling) if n.next_sibling is not None else None,
               id(n.previous_sibling) if n.previous_sibling is not None else None, type(n).__name__]
        if isinstance(n, bs4.Tag):
            rec += [n.name, n.namespace, n.prefix, id(n.attrs), id(n.contents), len(n.contents),
                    tuple((str(k), type(v).__name__, tuple(v) if isinstance(v, list) else v) for k, v in n.attrs.items())]
        else:
            rec.append(str(n))
        out.append(tuple(rec))
    return tuple(out)


def module_state(cm, index):
    """Mutable containers at module and class level of css_match (a memo hoisted there must show up in the digest)."""
    out = []
    for name, v in sorted(vars(cm).items()):
        if isinstance(v, (list, dict, set)) and not name.startswith('__'):
            out.append((name, canon(v, index)))
    for cls_name in ('CSSMatch', '_DocumentNav', 'SoupSieve', 'Inputs'):
        cls = getattr(cm, cls_name, None)
        if cls is None:
            continue
        for name, v in sorted(vars(cls).items()):
            if isinstance(v, (list, dict, set)):
                out.append((cls_name + '.' + name, canon(v, index)))
    return tuple(out)


def build_doc(spec):
    forest, xml, detached = spec
    if detached:
        return T.build_detached(forest[0], xml)
    return T.build_api(forest, xml)


class MatcherModel:
    def __init__(self, sv, spec, pattern, namespaces=None):
        self.sv = sv
        self.cm = sv.css_match
        self.spec = spec
        self.pattern = pattern
        self.namespaces = namespaces
        self.compiled = sv.compile(pattern, namespaces)
        # history-free oracle: each question asked once, alone, of a new matcher on its own pristine copy
        self.oracle = []
        probe = build_doc(spec)
        n = len(T.elements(probe))
        for i in range(n):
            doc = build_doc(spec)
            els = T.elements(doc)
            m = self.cm.CSSMatch(self.compiled.selectors, doc, self.compiled.namespaces, self.compiled.flags)
            self.oracle.append(bool(m.match(els[i])))
        self.n = n

    def fresh(self):
        doc = build_doc(self.spec)
        m = self.cm.CSSMatch(self.compiled.selectors, doc, self.compiled.namespaces, self.compiled.flags)
        return {'doc': doc, 'els': T.elements(doc), 'm': m, 'ns0': m.namespaces, 'if0': m.iframe_restrict,
                'fp0': fingerprint(doc), 'index': node_index(doc)}

    def actions(self, s):
        return list(range(self.n))

    def step(self, s, a):
        return bool(s['m'].match(s['els'][a]))

    def digest(self, s):
        return (canon(vars(s['m']), s['index']), module_state(self.cm, s['index']))

    def check(self, s, hist, a, obs):
        if obs != self.oracle[a]:
            return ({'kind': 'history-dependent-answer', 'selector': self.pattern},
                    f'match(element #{a}) after history {list(hist)} = {obs}, a fresh matcher answers {self.oracle[a]}')
        if s['m'].namespaces is not s['ns0'] and s['m'].namespaces != s['ns0'] or s['m'].iframe_restrict != s['if0']:
            return ({'kind': 'matcher-state-not-restored', 'selector': self.pattern},
                    f'after match(#{a}) namespaces={s["m"].namespaces!r} iframe_restrict={s["m"].iframe_restrict!r}')
        if fingerprint(s['doc']) != s['fp0']:
            return ({'kind': 'tree-mutated', 'selector': self.pattern}, f'document changed by match(#{a}) after {list(hist)}')
        return None


def shards(tier, seed):
    docs = sorted(documents())
    sel_idx = QUICK_SELECTORS if tier == 'quick' else list(range(len(SELECTORS)))
    out = [('bfs', tier, d, si) for d in docs for si in sel_idx]
    out += [('api', tier, d, k, 4) for d in docs for k in range(4)]
    out += [('edit', tier, d) for d in docs]
    out += [('xmlns-sequences', tier, 'x'), ('alone-ns', tier, 'x')]
    out += [('reuse', tier, d) for d in docs]
    return out


def run_reuse(sv, tier, docname, res):
    """ONE compiled object used on document A, then on every other document B, then on A again (and on an element of A): each answer equals
    what a freshly compiled selector gives on a pristine copy.  Whatever a compiled object remembers from one document must not reach the next."""
    specs = documents()
    sel_idx = QUICK_SELECTORS if tier == 'quick' else list(range(len(SELECTORS)))

    def answer(c, doc, target=-1):
        els = T.elements(doc)
        idx = {id(e): k for k, e in enumerate(els)}
        try:
            return [idx.get(id(x), 'foreign') for x in c.select(doc if target < 0 else els[target])]
        except Exception as e:
            return 'raise:' + type(e).__name__
    fresh = {}
    for si in sel_idx:
        pat = SELECTORS[si]
        for name in specs:
            sv.purge()
            fresh[(si, name)] = answer(sv.compile(pat), build_doc(specs[name]))
    for si in sel_idx:
        pat = SELECTORS[si]
        for other in sorted(specs):
            if other == docname:
                continue
            sv.purge()
            c = sv.compile(pat)
            a, b = build_doc(specs[docname]), build_doc(specs[other])
            got = [answer(c, a), answer(c, b), answer(c, a), answer(c, b)]
            want = [fresh[(si, docname)], fresh[(si, other)], fresh[(si, docname)], fresh[(si, other)]]
            res.evaluations += 4
            res.count('transitions', 4)
            if fresh[(si, docname)] and fresh[(si, docname)] != fresh[(si, other)]:
                res.nontrivial += 1
            if got != want:
                k = next(i for i in range(4) if got[i] != want[i])
                res.fail({'layer': 'reuse', 'doc': docname, 'other': other, 'selector': pat},
                         {'kind': 'compiled-object-remembers-a-document', 'selector': pat, 'call': k},
                         f'compiled {pat!r} used on [{docname}, {other}, {docname}, {other}]: call {k} gives {got[k]!r}, a fresh compile on a pristine copy gives {want[k]!r}')
    res.count('states', 1)


def run_alone_ns(sv, res):
    """On a document whose elements are spread over namespaces, with the namespaces= map given to the module-level functions: what select says
    about an element equals what match, closest and filter say when asked about that element alone."""
    import bs4
    from . import c03
    # second document: one prefix bound to two URIs at different depths (what a prefix means is decided by the caller's map, never by the place
    # in the document the call happens to be made on)
    rebound = '<r xmlns:p="urn:a"><p:e id="1"/><s xmlns:p="urn:b"><p:e id="2"><p:f id="3"/></p:e></s><p:e id="4"/></r>'
    maps = ({'x': 'urn:a'}, {'': 'urn:a'}, {'': 'urn:b', 'x': 'urn:a'}, {'x': 'urn:b', 'y': 'urn:a'}, None)
    pats = [p for p in c03.XML_SELECTORS if '--' not in p] + ['e', '*', '[id]', 'e > e', 'x|f', ':not(e)', 'p|e', 'q|e', 'p|*', ':not(p|e)', 'p|e > p|f']
    for markup, m in [(mk, m_) for mk in (c03.XML_DOC, rebound) for m_ in maps]:
        with warnings.catch_warnings():
            warnings.simplefilter('ignore')
            soup = bs4.BeautifulSoup(markup, 'xml')
        els = T.elements(soup)
        for pat in pats:
            sv.purge()
            kw = {} if m is None else {'namespaces': m}
            try:
                sel = sv.select(pat, soup, **kw)
                views = {
                    'select': [i for i, e in enumerate(els) if any(e is x for x in sel)],
                    'match': [i for i, e in enumerate(els) if sv.match(pat, e, **kw)],
                    'closest': [i for i, e in enumerate(els) if sv.closest(pat, e, **kw) is e],
                    'filter': [i for i, e in enumerate(els) if any(e is x for x in sv.filter(pat, e.parent, **kw))],
                    'select_one': [i for i, e in enumerate(els) if e.parent is not None and any(
                        x is e for x in [sv.select_one(pat, e.parent, **kw)] + sv.select(pat, e.parent, **kw)[1:])],
                    'iselect': [i for i, e in enumerate(els) if any(e is x for x in sv.iselect(pat, soup, **kw))],
                }
            except Exception as e:
                res.fail({'layer': 'alone-ns', 'map': m, 'selector': pat, 'rebound': markup is rebound}, {'kind': 'raise:' + type(e).__name__, 'selector': pat}, repr(e))
                continue
            res.evaluations += len(els) * len(views)
            res.count('transitions', len(els) * len(views))
            if views['select']:
                res.nontrivial += 1
            for name, v in views.items():
                if v != views['select']:
                    res.fail({'layer': 'alone-ns', 'map': m, 'selector': pat, 'rebound': markup is rebound}, {'kind': 'entry-points-disagree-about-one-element', 'entry': name, 'default_ns': bool(m) and '' in m, 'no_map': m is None},
                             f'[namespaced xml, namespaces={m!r}] select({pat!r}) designates elements {views["select"]}, {name} asked element by element says {v}')
                    break
    res.count('states', 1)


def run_bfs(sv, tier, docname, si, res):
    spec = documents()[docname]
    pattern = SELECTORS[si]
    ns = {'x': 'urn:x'} if si % 5 == 0 else None
    try:
        with shard.deadline(240):
            model = MatcherModel(sv, spec, pattern, ns)
            st = lts.bfs(model, max_depth=6 if tier == 'quick' else 10, max_states=400 if tier == 'quick' else 4000)
    except shard.CaseTimeout:
        res.fail({'layer': 'bfs', 'doc': docname, 'selector': pattern, 'hist': []}, {'kind': 'timeout', 'selector': pattern},
                 'state search did not finish in 240 s')
        return
    except Exception as e:
        res.fail({'layer': 'bfs', 'doc': docname, 'selector': pattern, 'hist': []},
                 {'kind': 'raise:' + type(e).__name__, 'selector': pattern}, f'{type(e).__name__}: {str(e)[:200]}')
        return
    res.count('states', st.states)
    res.count('transitions', st.transitions)
    res.count('replays', st.replays)
    res.count('bfs_runs', 1)
    if st.states > 1:
        res.nontrivial += 1
        res.count('runs_with_memo_state', 1)
    if st.depth_cap_hit:
        res.count('depth_cap_hits', 1)
    res.extra['max_depth'] = max(res.extra.get('max_depth', 0), st.max_depth)
    res.evaluations += st.transitions
    res.outcome('states=%d' % min(st.states, 9))
    for hist, (sig, detail) in st.failures:
        res.fail({'layer': 'bfs', 'doc': docname, 'selector': pattern, 'si': si, 'hist': list(hist)}, sig, f'[{docname}] {pattern!r}: {detail}')
    if st.sample_traces:
        res.sample({'document': docname, 'selector': pattern, 'trace': ['match(el#%d)' % a for a in st.sample_traces[0]],
                    'states': st.states, 'transitions': st.transitions})


# ---------------------------------------------------------------- API layer
API_SELECTORS = [':-soup-contains-own(b)', ':lang("")', ':default', ':indeterminate', '.big', '[class="big  red"]', ':dir(ltr)', ':root', 'p', ':nth-child(2)',
                 ':lang(en)', ':checked', ':-soup-contains(a)']


def api_alphabet(n_els):
    acts = []
    targets = [-1] + list(range(min(n_els, 3)))
    for pat in API_SELECTORS:
        acts.append(('select', pat, -1))
        for t in targets[1:2]:
            acts.append(('select', pat, t))
        for t in targets[1:]:
            acts.append(('match', pat, t))
        acts.append(('filter', pat, targets[min(1, len(targets) - 1)]))
        acts.append(('closest', pat, targets[-1]))
    return acts


def api_call(sv, doc, els, act):
    entry, pat, t = act
    target = doc if t < 0 else els[t]
    if entry == 'match' and t < 0:
        return False
    r = getattr(sv, entry)(pat, target)
    idx = {id(e): k for k, e in enumerate(els)}
    if isinstance(r, list):
        return [idx.get(id(x), 'foreign') for x in r]
    if isinstance(r, bool) or r is None:
        return r
    return idx.get(id(r), 'foreign')


def run_api(sv, tier, docname, k, n, res):
    spec = documents()[docname]
    probe = build_doc(spec)
    n_els = len(T.elements(probe))
    acts = api_alphabet(n_els)
    first = {}
    for a in acts:
        doc = build_doc(spec)
        sv.purge()
        try:
            first[a] = api_call(sv, doc, T.elements(doc), a)
        except Exception as e:
            first[a] = 'raise:' + type(e).__name__
    depth = 2 if tier == 'quick' else 3
    seqs = itertools.product(acts, repeat=depth)
    count = 0
    for j, seq in enumerate(seqs):
        if j % n != k:
            continue
        if depth == 3 and (seq[0][1] == seq[1][1] == seq[2][1]) is False and (j // n) % 4:
            continue            # depth 3: all same-selector triples, every 4th mixed triple
        doc = build_doc(spec)
        els = T.elements(doc)
        fp0 = fingerprint(doc)
        sv.purge()
        count += 1
        for pos, a in enumerate(seq):
            try:
                with shard.deadline(20):
                    got = api_call(sv, doc, els, a)
            except shard.CaseTimeout:
                got = 'timeout'
            except Exception as e:
                got = 'raise:' + type(e).__name__
            res.evaluations += 1
            if got != first[a]:
                res.fail({'layer': 'api', 'doc': docname, 'seq': [list(x) for x in seq[:pos + 1]]},
                         {'kind': 'api-history-dependent', 'entry': a[0], 'selector': a[1]},
                         f'[{docname}] {a[0]}({a[1]!r}, target {a[2]}) after {list(seq[:pos])} = {got!r}; as a first call on a pristine copy = {first[a]!r}')
                break
        if fingerprint(doc) != fp0:
            res.fail({'layer': 'api', 'doc': docname, 'seq': [list(x) for x in seq]}, {'kind': 'tree-mutated', 'selector': seq[-1][1]},
                     f'[{docname}] document changed by the call sequence {list(seq)}')
    # select(t) agrees element-wise with match
    if k == 0:
        for pat in API_SELECTORS:
            doc = build_doc(spec)
            els = T.elements(doc)
            sel = sv.select(pat, doc)
            # scope differs between select(doc) (root) and match(e) (e itself); none of these selectors uses :scope
            want = [i for i, e in enumerate(els) if sv.match(pat, e)]
            got = [i for i, e in enumerate(els) if any(e is x for x in sel)]
            res.evaluations += 1
            if want != got:
                res.fail({'layer': 'select-vs-match', 'doc': docname, 'selector': pat},
                         {'kind': 'select-vs-match', 'selector': pat}, f'[{docname}] select({pat!r}) = {got}, asking element by element = {want}')
        # filter(iterable) judges every item on its own (the item is its own :scope): whatever the container type and the order of the items,
        # the verdict on an element is the verdict match() gives for it alone
        import bs4
        for pat in API_SELECTORS + [':scope', ':not(:scope)', ':scope > *', ':is(:scope, p)', ':has(> :scope)']:
            doc = build_doc(spec)
            els = T.elements(doc)
            try:
                want = [i for i, e in enumerate(els) if sv.match(pat, e)]
                views = {'ResultSet': sv.filter(pat, bs4.ResultSet(None, els)), 'list': sv.filter(pat, list(els)),
                         'reversed': list(reversed(sv.filter(pat, list(reversed(els))))), 'find_all': sv.filter(pat, doc.find_all(True))}
            except Exception as e:
                res.fail({'layer': 'filter-vs-match', 'doc': docname, 'selector': pat}, {'kind': 'raise:' + type(e).__name__, 'selector': pat}, repr(e))
                continue
            for name, g in views.items():
                got = [i for i, e in enumerate(els) if any(e is x for x in g)]
                res.evaluations += 1
                if got != want:
                    res.fail({'layer': 'filter-vs-match', 'doc': docname, 'selector': pat}, {'kind': 'filter-iterable-vs-match', 'container': name, 'scope': 'scope' in pat},
                             f'[{docname}] filter({pat!r}, <{name} of all elements>) keeps {got}, match() element by element says {want}')
                    break
    res.count('api_sequences', count)
    res.count('transitions', count * depth)
    res.count('states', 1)
    if count:
        res.nontrivial += 1


# ---------------------------------------------------------------- edits between queries
def _find(doc, name, nth=0):
    import bs4
    k = 0
    for e in T.elements(doc):
        if e.name == name:
            if k == nth:
                return e
            k += 1
    return None


def m_meta_de(doc):
    m = _find(doc, 'meta')
    if m is not None:
        m['content'] = 'de'


def m_meta_remove(doc):
    m = _find(doc, 'meta')
    if m is not None:
        m.extract()


def m_meta_add(doc):
    h = _find(doc, 'head')
    if h is not None:
        import bs4
        t = bs4.BeautifulSoup('', 'html.parser').new_tag('meta')
        t['http-equiv'] = 'content-language'
        t['content'] = 'en'
        h.insert(0, t)


def m_root_lang(doc):
    r = T.elements(doc)[0]
    r['lang'] = 'en'


def m_check_radio(doc):
    for e in T.elements(doc):
        if e.name == 'input' and e.get('type') == 'radio' and e.get('name') == 'n' and not e.has_attr('checked'):
            e['checked'] = ''
            return


def m_uncheck(doc):
    for e in T.elements(doc):
        if e.name == 'input' and e.has_attr('checked'):
            del e['checked']
            return


def m_new_first_submit(doc):
    f = _find(doc, 'form', 1) or _find(doc, 'form')
    if f is not None:
        import bs4
        t = bs4.BeautifulSoup('', 'html.parser').new_tag('input')
        t['type'] = 'submit'
        f.insert(0, t)


def m_class(doc):
    for e in T.elements(doc):
        if e.get('class') is not None:
            e['class'] = 'red' if isinstance(e.get('class'), str) else ['red']
            return


def m_dir(doc):
    for e in T.elements(doc):
        if e.name == 'p':
            e['dir'] = 'rtl'
            return


MUTATIONS = {'meta->de': m_meta_de, 'meta-removed': m_meta_remove, 'meta-added': m_meta_add, 'root-lang': m_root_lang, 'radio-checked': m_check_radio,
             'unchecked': m_uncheck, 'new-first-submit': m_new_first_submit, 'class-changed': m_class, 'dir-rtl': m_dir}
EDIT_QUERIES = [':lang(en)', ':lang(de)', ':lang("")', ':default', ':indeterminate', ':checked', '.big', '.red', '[class="big  red"]', ':dir(rtl)', ':dir(ltr)',
                'p:lang(en), :default']


def run_edits(sv, tier, docname, res):
    """[query, edit the tree, query]: the second answer must be the answer for the tree as it is NOW (equal to the same query on a freshly
    built document that received the same edit and was never queried before)."""
    spec = documents()[docname]
    for mname, mut in MUTATIONS.items():
        for q1 in EDIT_QUERIES:
            for q2 in (EDIT_QUERIES if tier != 'quick' else [q1] + EDIT_QUERIES[:3]):
                doc = build_doc(spec)
                fresh = build_doc(spec)
                try:
                    mut(fresh)
                    mut(build_doc(spec))
                except Exception:
                    res.count('edit_not_applicable', 1)      # e.g. new_tag on a parentless subtree: my edit, not the library
                    continue
                fresh = build_doc(spec)
                try:
                    mut(fresh)
                    sv.purge()
                    want = api_call(sv, fresh, T.elements(fresh), ('select', q2, -1))
                    sv.purge()
                    api_call(sv, doc, T.elements(doc), ('select', q1, -1))
                    mut(doc)
                    got = api_call(sv, doc, T.elements(doc), ('select', q2, -1))
                except Exception as e:
                    got, want = 'raise:' + type(e).__name__, 'no exception'
                res.evaluations += 1
                if got != want:
                    res.fail({'layer': 'edit', 'doc': docname, 'mutation': mname, 'q1': q1, 'q2': q2},
                             {'kind': 'stale-answer-after-edit', 'mutation': mname, 'selector': q2},
                             f'[{docname}] select({q1!r}); {mname}; select({q2!r}) = {got!r}, a never-queried copy with the same edit gives {want!r}')
                else:
                    res.outcome('edit-fresh')
    res.count('transitions', len(MUTATIONS) * len(EDIT_QUERIES) * 3)
    res.count('states', len(MUTATIONS))
    res.nontrivial += 1


def run_shard(desc):
    from .. import common
    sv = common.bind()
    res = shard.Result()
    if desc[0] == 'xmlns-sequences':
        # call sequences WITHOUT purge on namespaced XML, with maps that share keys, and with ONE dict object re-bound between calls:
        # every answer must be the answer for the arguments as they are at that moment (layer shared with C03)
        from . import c03
        c03.run_xmlns(sv, res)
        for f in res.failures:
            f['case']['layer'] = 'xmlns'
        res.count('transitions', res.evaluations)
        res.count('states', 1)
    elif desc[0] == 'alone-ns':
        run_alone_ns(sv, res)
    elif desc[0] == 'reuse':
        run_reuse(sv, desc[1], desc[2], res)
    elif desc[0] == 'edit':
        run_edits(sv, desc[1], desc[2], res)
    elif desc[0] == 'bfs':
        run_bfs(sv, desc[1], desc[2], desc[3], res)
    else:
        run_api(sv, desc[1], desc[2], desc[3], desc[4], res)
    return res


def replay(case):
    from .. import common
    sv = common.bind()
    if case['layer'] == 'xmlns':
        from . import c03
        return c03.replay(case)
    if case['layer'] == 'alone-ns':
        r = shard.Result()
        run_alone_ns(sv, r)
        for f_ in r.failures:
            if f_['case']['selector'] == case['selector'] and f_['case']['map'] == case['map'] and f_['case'].get('rebound') == case.get('rebound'):
                return f_['sig'], f_['detail']
        return None
    if case['layer'] == 'reuse':
        r = shard.Result()
        run_reuse(sv, 'thorough', case['doc'], r)
        for f_ in r.failures:
            if f_['case']['selector'] == case['selector'] and f_['case']['other'] == case['other']:
                return f_['sig'], f_['detail']
        return None
    spec = documents()[case['doc']]
    if case['layer'] == 'bfs':
        si = case.get('si', SELECTORS.index(case['selector']))
        ns = {'x': 'urn:x'} if si % 5 == 0 else None
        try:
            model = MatcherModel(sv, spec, case['selector'], ns)
            s = model.fresh()
            hist = case['hist']
            for pos, a in enumerate(hist):
                obs = model.step(s, a)
                f = model.check(s, tuple(hist[:pos]), a, obs)
                if f:
                    return f
        except Exception as e:
            return {'kind': 'raise:' + type(e).__name__, 'selector': case['selector']}, repr(e)
        return None
    if case['layer'] == 'edit':
        doc, fresh = build_doc(spec), build_doc(spec)
        mut = MUTATIONS[case['mutation']]
        mut(fresh)
        sv.purge()
        want = api_call(sv, fresh, T.elements(fresh), ('select', case['q2'], -1))
        sv.purge()
        api_call(sv, doc, T.elements(doc), ('select', case['q1'], -1))
        mut(doc)
        got = api_call(sv, doc, T.elements(doc), ('select', case['q2'], -1))
        return None if got == want else ({'kind': 'stale-answer-after-edit', 'mutation': case['mutation'], 'selector': case['q2']}, f'{got} vs {want}')
    if case['layer'] == 'filter-vs-match':
        import bs4
        doc = build_doc(spec)
        els = T.elements(doc)
        pat = case['selector']
        want = [i for i, e in enumerate(els) if sv.match(pat, e)]
        for name, g in (('ResultSet', sv.filter(pat, bs4.ResultSet(None, els))), ('list', sv.filter(pat, list(els))),
                        ('reversed', list(reversed(sv.filter(pat, list(reversed(els)))))), ('find_all', sv.filter(pat, doc.find_all(True)))):
            got = [i for i, e in enumerate(els) if any(e is x for x in g)]
            if got != want:
                return {'kind': 'filter-iterable-vs-match', 'container': name}, f'{got} vs {want}'
        return None
    if case['layer'] == 'select-vs-match':
        doc = build_doc(spec)
        els = T.elements(doc)
        sel = sv.select(case['selector'], doc)
        want = [i for i, e in enumerate(els) if sv.match(case['selector'], e)]
        got = [i for i, e in enumerate(els) if any(e is x for x in sel)]
        return None if want == got else ({'kind': 'select-vs-match', 'selector': case['selector']}, f'{got} vs {want}')
    seq = [tuple(x) for x in case['seq']]
    doc = build_doc(spec)
    els = T.elements(doc)
    fp0 = fingerprint(doc)
    sv.purge()
    for a in seq:
        d2 = build_doc(spec)
        sv_first = api_call(sv, d2, T.elements(d2), a)
    sv.purge()
    last = None
    for a in seq:
        try:
            last = api_call(sv, doc, els, a)
        except Exception as e:
            last = 'raise:' + type(e).__name__
    d2 = build_doc(spec)
    sv.purge()
    try:
        alone = api_call(sv, d2, T.elements(d2), seq[-1])
    except Exception as e:
        alone = 'raise:' + type(e).__name__
    if last != alone:
        return {'kind': 'api-history-dependent', 'entry': seq[-1][0], 'selector': seq[-1][1]}, f'{last!r} vs alone {alone!r}'
    if fingerprint(doc) != fp0:
        return {'kind': 'tree-mutated', 'selector': seq[-1][1]}, 'document changed'
    return None


def check(tier, seed):
    res, info = shard.run(__name__, shards(tier, seed), order_seed=seed)
    states = res.counters.get('states', 0)
    transitions = res.counters.get('transitions', 0)
    cov = {
        'states': max(states, 1), 'transitions': max(transitions, 1),
        'traces_validated_against_impl': res.counters.get('replays', 0) + res.counters.get('api_sequences', 0),
        'evaluations': res.evaluations,
        'rule': ('states = distinct digests of the live matcher reached by BFS summed over (document, selector) runs; transitions = '
                 'real match()/API calls checked; every history is replayed on fresh real objects; a run is non-trivial when the '
                 'matcher has more than one reachable state (a memo table really changes) or an API sequence set was executed'),
        'documents': sorted(documents()), 'selectors': len(QUICK_SELECTORS if tier == 'quick' else SELECTORS),
        'depth_bound': 6 if tier == 'quick' else 10, 'depth_cap_hits': res.counters.get('depth_cap_hits', 0),
        'max_depth_reached': res.extra.get('max_depth', 0),
        'exhaustive': not info['cap_hit'] and res.counters.get('depth_cap_hits', 0) == 0,
        'api_call_sequence_depth': 2 if tier == 'quick' else 3,
    }
    return {'result': res, 'coverage': cov, 'info': info,
            'assumptions': ['state digest covers vars(CSSMatch instance) and mutable module/class-level containers of css_match; state kept '
                            'elsewhere (closures, C extensions) would be invisible to deduplication but not to the per-transition oracle',
                            'documents are API-built; a pristine copy is rebuilt from the same specification']}
