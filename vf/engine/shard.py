"""E1 plumbing: deterministic sharding over worker processes, per-case watchdog, result merging.

A property module provides
    shards(tier, seed)   -> list of picklable shard descriptors (the union of shards IS the enumerated space)
    run_shard(desc)      -> Result   (enumerates every case of the shard, checks each, never samples)
and the engine runs all shards on a fork pool, merges the Results and returns them.
"""
from __future__ import annotations
import importlib
import multiprocessing as mp
import os
import signal
import sys
import time
import traceback
from contextlib import contextmanager

NPROC = int(os.environ.get('VF_NPROC', '0')) or min(16, os.cpu_count() or 4)
MAX_FAILS_PER_SHARD = 40
MAX_SAMPLES = 6


class CaseTimeout(BaseException):
    """Raised by the watchdog inside the code under test (BaseException so `except Exception` cannot eat it)."""


def _on_alarm(signum, frame):
    raise CaseTimeout()


@contextmanager
def deadline(seconds: float):
    """Per-case watchdog (worker main thread only). CPython 3.12's `re` polls signals, so regex hangs are caught."""
    old = signal.signal(signal.SIGALRM, _on_alarm)
    signal.setitimer(signal.ITIMER_REAL, seconds)
    try:
        yield
    finally:
        signal.setitimer(signal.ITIMER_REAL, 0)
        signal.signal(signal.SIGALRM, old)


@contextmanager
def cpu_deadline(seconds: float):
    """Watchdog on the process's own CPU time (ITIMER_VIRTUAL): immune to the machine being busy with other work."""
    old = signal.signal(signal.SIGVTALRM, _on_alarm)
    signal.setitimer(signal.ITIMER_VIRTUAL, seconds)
    try:
        yield
    finally:
        signal.setitimer(signal.ITIMER_VIRTUAL, 0)
        signal.signal(signal.SIGVTALRM, old)


class Result:
    """Mergeable per-shard result."""

    def __init__(self):
        self.evaluations = 0          # cases executed against the implementation
        self.nontrivial = 0           # distinct cases that are non-trivial by the property's rule
        self.unspecified = 0          # cases skipped because the property text does not pin the answer
        self.outcomes = {}            # outcome class -> count
        self.counters = {}            # free-form named counters (summed)
        self.samples = []             # a few concrete cases
        self.failures = []            # witnesses: dict(case=..., sig=..., detail=...)
        self.failure_count = 0
        self.extra = {}               # free-form (last writer wins)

    def outcome(self, key, n=1):
        self.outcomes[key] = self.outcomes.get(key, 0) + n

    def count(self, key, n=1):
        self.counters[key] = self.counters.get(key, 0) + n

    def sample(self, s):
        if len(self.samples) < MAX_SAMPLES:
            self.samples.append(s)

    def fail(self, case, sig, detail=''):
        self.failure_count += 1
        if len(self.failures) < MAX_FAILS_PER_SHARD:
            self.failures.append({'case': case, 'sig': sig, 'detail': detail})
        else:
            # keep at least one witness per distinct signature
            key = repr(sorted(sig.items())) if isinstance(sig, dict) else repr(sig)
            seen = self.extra.setdefault('_sigs', set())
            if not seen:
                for f in self.failures:
                    s = f['sig']
                    seen.add(repr(sorted(s.items())) if isinstance(s, dict) else repr(s))
            if key not in seen and len(self.failures) < 4 * MAX_FAILS_PER_SHARD:
                seen.add(key)
                self.failures.append({'case': case, 'sig': sig, 'detail': detail})

    def merge(self, other: 'Result'):
        self.evaluations += other.evaluations
        self.nontrivial += other.nontrivial
        self.unspecified += other.unspecified
        for k, v in other.outcomes.items():
            self.outcomes[k] = self.outcomes.get(k, 0) + v
        for k, v in other.counters.items():
            self.counters[k] = self.counters.get(k, 0) + v
        for s in other.samples:
            self.sample(s)
        self.failures.extend(other.failures)
        self.failure_count += other.failure_count
        for k, v in other.extra.items():
            if k != '_sigs':
                self.extra[k] = v


def _worker(args):
    modname, desc = args
    from vf import common
    common.bind()
    mod = importlib.import_module(modname)
    t0 = time.time()
    try:
        res = mod.run_shard(desc)
    except CaseTimeout:
        res = Result()
        res.extra['harness_error'] = f'shard {desc!r}: watchdog fired outside a guarded case'
    except BaseException:
        res = Result()
        res.extra['harness_error'] = f'shard {desc!r}: {traceback.format_exc()}'
    res.extra.pop('_sigs', None)
    res.count('shard_seconds_x1000', int((time.time() - t0) * 1000))
    return res


def run(modname: str, shards: list, nproc: int | None = None, order_seed: int = 0, budget_s: float | None = None):
    """Run every shard; returns (merged Result, info dict). Completes all shards unless the time budget is hit."""
    n = nproc or NPROC
    idx = list(range(len(shards)))
    if order_seed:
        import random
        random.Random(order_seed).shuffle(idx)
    weight = getattr(importlib.import_module(modname), 'shard_weight', None)
    if weight is not None:
        idx.sort(key=lambda i: -weight(shards[i]))        # stable: heavy shards first, seed order within a weight class
    jobs = [(modname, shards[i]) for i in idx]
    total = Result()
    done = 0
    t0 = time.time()
    capped = False
    if n <= 1 or len(jobs) <= 1:
        for j in jobs:
            total.merge(_worker(j))
            done += 1
            if budget_s and time.time() - t0 > budget_s:
                capped = done < len(jobs)
                break
    else:
        ctx = mp.get_context('fork')
        with ctx.Pool(min(n, len(jobs))) as pool:
            it = pool.imap_unordered(_worker, jobs, chunksize=1)
            for r in it:
                total.merge(r)
                done += 1
                if budget_s and time.time() - t0 > budget_s and done < len(jobs):
                    capped = True
                    pool.terminate()
                    break
    info = {'shards': len(jobs), 'shards_done': done, 'cap_hit': capped, 'workers': n}
    if total.extra.get('harness_error'):
        sys.stderr.write('HARNESS ERROR: ' + str(total.extra['harness_error']) + '\n')
    return total, info


def shrink_seq(items, still_fails, max_steps=400):
    """Greedy delta-debugging on a sequence: drop chunks, then single items, while `still_fails(list)` holds."""
    items = list(items)
    steps = 0
    n = 2
    while len(items) >= 2 and steps < max_steps:
        chunk = max(1, len(items) // n)
        progress = False
        i = 0
        while i < len(items) and steps < max_steps:
            cand = items[:i] + items[i + chunk:]
            steps += 1
            if cand and still_fails(cand):
                items = cand
                progress = True
            else:
                i += chunk
        if not progress:
            if chunk == 1:
                break
            n = min(len(items), n * 2)
    return items
