#!/venv/bin/python
"""Regenerate /verif/MANIFEST.json from the table below (keeps the file schema-valid at all times)."""
import json, os, sys
HERE = os.path.dirname(os.path.dirname(os.path.abspath(__file__)))
sys.path.insert(0, HERE)
from tools.manifest_table import CHECKS, NOT_APPLICABLE, ENGINES, NOTES  # noqa: E402

ids = [json.loads(l)['id'] for l in open(os.path.join(HERE, 'properties.jsonl'))]
checks = []
for pid in ids:
    if pid not in CHECKS:
        continue
    c = CHECKS[pid]
    checks.append({
        'property_id': pid,
        'quick_cmd': f'/venv/bin/python -m vf.run {pid} --tier quick',
        'thorough_cmd': f'/venv/bin/python -m vf.run {pid} --tier thorough',
        'evidence_file': f'/verif/evidence/{pid}.json',
        'replay_cmd_template': f'/venv/bin/python -m vf.run {pid} --replay {{path}}',
        'engine': c['engine'],
        'level_claimed': {'category': c['level'], 'text': c['text'], 'design_ref': c['design_ref']},
        'level_note': c['note'],
        'technique': c['technique'],
    })
na = [{'property_id': p, 'reason': NOT_APPLICABLE.get(p, 'check under construction in this session; will be claimed once its command exists')}
      for p in ids if p not in CHECKS]
m = {
    'version': 1,
    'setup_cmd': '/venv/bin/python -m vf.selftest',
    'hooks': {
        'guard': 'SOUPSIEVE_VERIF',
        'enable': 'no source hooks exist: checks trace, wrap and drive /repo from outside (PYTHONPATH=/repo); the guard name is reserved and unused',
        'baseline_off_cmd': 'cd /repo && /venv/bin/python -m pytest -ra -q -p no:cacheprovider --timeout=900 --continue-on-collection-errors',
        'source_commits': [],
        'add_only': True,
    },
    'engines': ENGINES,
    'checks': checks,
    'notes': NOTES,
    'not_applicable': na,
}
json.dump(m, open(os.path.join(HERE, 'MANIFEST.json'), 'w'), indent=1)
print('checks', len(checks), 'not_applicable', len(na))
