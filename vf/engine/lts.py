"""E2: explicit-state breadth-first search whose transitions call the real code.

A system is described by an object with
    fresh()                 -> a brand-new live system (real objects), reached by the empty history
    actions(sys)            -> finite list of action labels enabled in sys
    step(sys, action)       -> observation (calls the real method)
    digest(sys)             -> hashable canonical form of the mutable state (for deduplication only)
    check(sys, hist, action, obs) -> None | (sig, detail)      evaluated on EVERY transition
A state is identified with a history that reaches it; it is rebuilt by replaying the history on a fresh system
(live objects rarely copy).  Search stops when no new digest appears or at max_depth (reported).
"""
from __future__ import annotations
import collections


class Stats:
    def __init__(self):
        self.states = 0
        self.transitions = 0
        self.replays = 0
        self.max_depth = 0
        self.depth_cap_hit = False
        self.failures = []
        self.sample_traces = []


def replay(model, hist):
    sys_ = model.fresh()
    for a in hist:
        model.step(sys_, a)
    return sys_


def bfs(model, max_depth=6, max_states=20000, max_failures=5):
    st = Stats()
    s0 = model.fresh()
    seen = {model.digest(s0)}
    st.states = 1
    frontier = collections.deque([()])
    while frontier:
        hist = frontier.popleft()
        if len(hist) >= max_depth:
            st.depth_cap_hit = True
            continue
        base = replay(model, hist)
        st.replays += 1
        acts = model.actions(base)
        for a in acts:
            sys_ = replay(model, hist)
            st.replays += 1
            obs = model.step(sys_, a)
            st.transitions += 1
            f = model.check(sys_, hist, a, obs)
            if f is not None:
                if len(st.failures) < max_failures:
                    st.failures.append((hist + (a,), f))
                continue
            d = model.digest(sys_)
            if d not in seen:
                seen.add(d)
                st.states += 1
                st.max_depth = max(st.max_depth, len(hist) + 1)
                if st.states <= max_states:
                    frontier.append(hist + (a,))
                    if len(st.sample_traces) < 3 and len(hist) + 1 >= 2:
                        st.sample_traces.append(list(hist + (a,)))
    return st
