"""C09 — compiled meaning depends only on the token sequence, not on its spelling.

Every base selector (an AST over the C01/C02/C13/C19 grammars) is rendered into literal tokens and *rewrite sites*:
gaps where CSS allows whitespace/comments (around combinators and commas, the descendant combinator itself, inside
parentheses and brackets, around the attribute operator, before the i/s flag, around the inner An+B sign, around 'of',
both ends of the pattern), identifiers (characters as CSS escapes, ASCII case where names are case-insensitive) and
string values (double/single quotes, bare identifier, escapes, escaped newline).  Enumerated: every single-site rewrite of
every base, every pair of sites (quick: for bases with <= 14 sites; thorough: all), every triple for small bases (thorough).
Oracle: the respelling compiles, compile(variant).selectors == compile(base).selectors, and both select the same
elements on a small corpus.
"""
from __future__ import annotations
import itertools
import warnings
from ..engine import shard
from ..gen import trees as T, selectors as S
from ..ref.ident import serialize_ident, consume_ident
from . import _sel

ID = 'C09'
LEVEL = 'exploration'

CMT = '/* x "y\' z */'
ALTS = {
    'comb': [' ', '', '  ', '\n  ', '\t', '/**/', ' /**/', '/**/ ', ' ' + CMT + ' ', '\r\n'],
    'desc': [' ', '  ', '\n', '\t', ' /**/ ', ' /**/', '/**/ ', '\r\n', '\f', ' ' + CMT + ' '],
    'paren': ['', ' ', '\n', '/**/', ' ' + CMT + ' ', '  '],
    'flag': [' ', '', '  ', '/**/', ' /**/ ', '\n'],
    'sign': ['', ' ', '/**/', ' ' + CMT + ' ', '\t'],
    'of': [' ', '  ', '\n', '/**/ ', ' /**/', '\t' + CMT + '\t'],
    'end': ['', ' ', '\n', '/**/', ' ' + CMT + ' ', '\t', '/**/ /**/'],
}
HEXCH = set('0123456789abcdefABCDEF')


def esc_hex(c, six=False, upper=False):
    s = ('\\%06x' % ord(c)) if six else ('\\%x ' % ord(c))
    return s.upper() if upper else s


def ident_alts(v, ci):
    """Respellings of one identifier token (v is the unescaped value; the canonical spelling comes first)."""
    base = serialize_ident(v)
    out = [base]
    if not v:
        return out
    chars = list(v)

    def sp(i, how):
        cs = [serialize_ident(c) if c not in '-0123456789' else c for c in chars]
        # positions other than i keep a spelling that is safe anywhere inside an identifier
        cs = [serialize_ident('x' + c)[1:] for c in chars]
        if how == 'hex':
            cs[i] = esc_hex(chars[i])
        elif how == 'HEX':
            cs[i] = esc_hex(chars[i], upper=True)
        elif how == 'six':
            cs[i] = esc_hex(chars[i], True)
        elif how == 'bs':
            cs[i] = '\\' + chars[i]
        elif how == 'uphex':
            cs[i] = esc_hex(chars[i].upper())
        elif how == 'up':
            cs[i] = chars[i].upper()
        s = ''.join(cs)
        if i != 0 and (chars[0].isdigit() or (chars[0] == '-' and len(chars) > 1 and (chars[1].isdigit()))):
            s = base[:len(base) - len(''.join(cs[1:]))] + ''.join(cs[1:]) if False else s
        return s
    first_safe = not (chars[0].isdigit() or chars[0] == '-')
    for i in sorted({0, len(chars) // 2, len(chars) - 1}):
        if i != 0 and not first_safe:
            continue
        out.append(sp(i, 'hex'))
        out.append(sp(i, 'HEX'))
        if i != len(chars) - 1:
            # a six-digit escape still swallows one following whitespace, so it is only safe before another identifier character
            out.append(sp(i, 'six'))
        if chars[i] not in HEXCH and chars[i] not in '\n\r\f' and (first_safe or i == 0):
            out.append(sp(i, 'bs'))
        if ci and chars[i].isalpha():
            out.append(sp(i, 'up'))
            out.append(sp(i, 'uphex'))
    if first_safe:
        out.append(''.join(esc_hex(c) for c in chars))
    if ci:
        out.append(base.upper() if base.isascii() and '\\' not in base else base)
        out.append(base.capitalize() if base.isascii() and '\\' not in base else base)
    seen, uniq = set(), []
    for x in out:
        if x not in seen:
            seen.add(x)
            uniq.append(x)
    return uniq


def string_alts(v):
    out = [S.css_string(v), "'" + S.css_string(v)[1:-1].replace('\\"', '"').replace("'", "\\'") + "'"]
    r = consume_ident(serialize_ident(v)) if v else None
    if v and r is not None and r[0] == v:
        out.append(serialize_ident(v))
        if not (v[0].isdigit() or v[0] == '-'):
            out.append(esc_hex(v[0]) + serialize_ident('x' + v[1:])[1:])
            out.append(esc_hex(v[0], upper=True) + serialize_ident('x' + v[1:])[1:])
            out.append(serialize_ident(v[:-1]) + esc_hex(v[-1], upper=True) if len(v) > 1 else esc_hex(v[0], upper=True))
    if v:
        body = S.css_string(v)[1:-1]
        out.append('"' + esc_hex(v[0]) + S.css_string(v[1:])[1:-1] + '"')
        out.append('"' + esc_hex(v[0], upper=True) + S.css_string(v[1:])[1:-1] + '"')
        out.append('"\\\n' + body + '"')
        mid = len(v) // 2
        out.append('"' + S.css_string(v[:mid])[1:-1] + '\\\r\n' + S.css_string(v[mid:])[1:-1] + '"')
        if mid + 1 < len(v) and v[mid + 1] not in ' \t\n\r\f':
            out.append('"' + S.css_string(v[:mid])[1:-1] + esc_hex(v[mid], True) + S.css_string(v[mid + 1:])[1:-1] + '"')
    seen, uniq = set(), []
    for x in out:
        if x not in seen:
            seen.add(x)
            uniq.append(x)
    return uniq


# ---------------------------------------------------------------- site-aware rendering
def L(t):
    return ('lit', t)


def G(k):
    return ('gap', k)


def p_type(t):
    ns, name = t
    out = []
    if ns is not None:
        if ns == '*':
            out.append(L('*'))
        elif ns:
            out.append(('ident', ns, False))
        out.append(L('|'))
    out.append(L('*') if name == '*' else ('ident', name, False))
    return out


def p_nth_arg(a, b):
    out = []
    if a == 0:
        return [L(str(b))]
    if a in (1, -1):
        out.append(L('-' if a < 0 else ''))
    else:
        out.append(L(str(a)))
    out.append(('kw', 'n'))
    if b:
        out += [G('sign'), L('+' if b > 0 else '-'), G('sign'), L(str(abs(b)))]
    return out


def p_simple(s):
    k = s[0]
    if k == 'id':
        return [L('#'), ('ident', s[1], False)]
    if k == 'class':
        return [L('.'), ('ident', s[1], False)]
    if k == 'attr':
        _, ns, name, op, value, flag = s
        out = [L('['), G('paren')]
        if ns is not None:
            if ns == '*':
                out.append(L('*'))
            elif ns:
                out.append(('ident', ns, False))
            out.append(L('|'))
        out.append(('ident', name, False))
        if op is not None:
            out += [G('paren'), L(op), G('paren'), ('str', value)]
            if flag:
                out += [G('flag'), ('kw', flag)]
        out += [G('paren'), L(']')]
        return out
    if k == 'pc':
        return [L(':'), ('ident', s[1], True)]
    if k == 'fn':
        return [L(':'), ('ident', s[1], True), L('('), G('paren')] + p_list(s[2]) + [G('paren'), L(')')]
    if k == 'has':
        out = [L(':'), ('ident', 'has', True), L('('), G('paren')]
        for i, (c, x) in enumerate(s[1]):
            if i:
                out += [G('comb'), L(','), G('comb')]
            if c != ' ':
                out += [L(c), G('comb')]
            out += p_complex(x)
        return out + [G('paren'), L(')')]
    if k == 'nth':
        _, kind, a, b, of_s = s[:5]
        out = [L(':'), ('ident', 'nth-' + kind, True), L('('), G('paren')]
        if (a, b) == (2, 0) and len(s) > 5 and s[5] == 'even':
            out.append(('kw', 'even'))
        elif (a, b) == (2, 1) and len(s) > 5 and s[5] == 'odd':
            out.append(('kw', 'odd'))
        else:
            out += p_nth_arg(a, b)
        if of_s is not None:
            out += [G('of'), ('kw', 'of'), G('of')] + p_list(of_s)
        return out + [G('paren'), L(')')]
    if k == 'lang':
        out = [L(':'), ('ident', 'lang', True), L('('), G('paren')]
        for i, r in enumerate(s[1]):
            if i:
                out += [G('comb'), L(','), G('comb')]
            out.append(('str', r))
        return out + [G('paren'), L(')')]
    if k == 'dir':
        return [L(':'), ('ident', 'dir', True), L('('), G('paren'), ('kw', s[1]), G('paren'), L(')')]
    if k == 'contains':
        name = '-soup-contains-own' if s[1] else '-soup-contains'
        out = [L(':'), ('ident', name, True), L('('), G('paren')]
        for i, t in enumerate(s[2]):
            if i:
                out += [G('comb'), L(','), G('comb')]
            out.append(('str', t))
        return out + [G('paren'), L(')')]
    raise ValueError(s)


def p_compound(c):
    out = []
    if c[1] is not None:
        out += p_type(c[1])
    for s in c[2]:
        out += p_simple(s)
    return out


def p_complex(x):
    _, comps, combs = x
    out = p_compound(comps[0])
    for comb, c in zip(combs, comps[1:]):
        if comb == ' ':
            out.append(G('desc'))
        else:
            out += [G('comb'), L(comb), G('comb')]
        out += p_compound(c)
    return out


def p_list(lst):
    out = []
    for i, x in enumerate(lst):
        if i:
            out += [G('comb'), L(','), G('comb')]
        out += p_complex(x)
    return out


def parts_of(lst):
    return [G('end')] + p_list(lst) + [G('end')]


def site_alts(part):
    k = part[0]
    if k == 'gap':
        return ALTS[part[1]]
    if k == 'ident':
        return ident_alts(part[1], part[2])
    if k == 'str':
        return string_alts(part[1])
    if k == 'kw':
        t = part[1]
        out = [t, t.upper(), t.capitalize()]
        return list(dict.fromkeys(out))
    return None


def sites_of(parts):
    """-> list of (index in parts, alternatives) ; alternatives[0] is the canonical spelling."""
    out = []
    for i, p in enumerate(parts):
        a = site_alts(p)
        if a and len(a) > 1:
            out.append((i, a))
    return out


def render(parts, choice=None):
    choice = choice or {}
    out = []
    for i, p in enumerate(parts):
        if p[0] == 'lit':
            out.append(p[1])
        else:
            alts = site_alts(p)
            t = alts[choice.get(i, 0)]
            if p == ('gap', 'flag') and t == '' and out and not out[-1].endswith(('"', "'")):
                t = ' '         # 'v' directly followed by the flag would be one identifier 'vi': only legal after a quoted value
            out.append(t)
    return ''.join(out)


# ---------------------------------------------------------------- bases
def bases(tier):
    a, b, c = S.cp(S.T('a')), S.cp(S.T('b')), S.cp(S.T('div'))
    cls, idd = ('class', 'c'), ('id', 'i-1')
    out = []
    simple = [a, S.cp(S.T('*')), S.cp(None, cls), S.cp(None, idd), S.cp(S.T('a'), cls, idd), S.cp(S.T('a', 'x')), S.cp(S.T('*', '*')),
              S.cp(S.T('b', '')), S.cp(None, ('pc', 'root')), S.cp(S.T('a'), ('pc', 'first-child')), S.cp(None, ('pc', 'only-of-type')),
              S.cp(None, ('pc', 'hover')), S.cp(None, ('pc', 'checked'))]
    for op in (None, '=', '~=', '|=', '^=', '$=', '*=', '!='):
        for flag in (None, 'i', 's'):
            if op is None and flag:
                continue
            simple.append(S.cp(None, ('attr', None, 't', op, 'v w' if op in ('=', '^=') else ('v' if op else None), flag)))
    simple += [S.cp(None, ('attr', 'x', 'k', '=', 'é"\\', None)), S.cp(None, ('attr', '*', 'k', None, None, None)),
               S.cp(None, ('attr', '', 'k', '=', '1a', 'i')), S.cp(S.T('a'), ('attr', None, 'type', '=', 'T', None))]
    # values holding whitespace (or nothing else) under EVERY operator: written as a string or as an identifier with escapes they are the
    # same value, whatever special treatment the operator gives to blanks (`~=` with a blank matches nothing - in both spellings)
    simple += [S.cp(None, ('attr', None, 't', op, val, None)) for op in ('=', '~=', '|=', '^=', '$=', '*=', '!=') for val in ('v w', ' ', 'v\tw', ' v', 'v\n')
               if not (op in ('=', '^=') and val == 'v w')]
    # values that are regular-expression syntax: quoted or as an escaped identifier they are the same literal text
    simple += [S.cp(None, ('attr', None, 't', op, val, None)) for op, val in (('=', '(v+)+.'), ('^=', '(v'), ('$=', 'v)?'), ('*=', 'v|w'), ('~=', '[v]'), ('|=', 'v*'), ('!=', '^v$'))]
    nth = [('nth', 'child', 2, 1, None), ('nth', 'last-child', -1, 3, None), ('nth', 'of-type', 0, 2, None), ('nth', 'last-of-type', 2, 0, None, 'even'),
           ('nth', 'child', 2, 1, None, 'odd'), ('nth', 'child', 3, -2, (S.cx(a), S.cx(S.cp(None, cls))),), ('nth', 'last-child', 1, 0, (S.cx(a, '>', b),)),
           ('nth', 'child', -2, 0, None), ('nth', 'of-type', 1, 10, None)]
    simple += [S.cp(None, n) for n in nth]
    simple += [S.cp(None, ('lang', ('Lx', 'zo-Lj'))), S.cp(None, ('contains', False, ('Lx', 'oz'))), S.cp(None, ('attr', None, 'Lk', '=', 'zoL', None)), S.cp(S.T('jz'), ('class', 'oL')),
               S.cp(None, ('lang', ('en',))), S.cp(None, ('lang', ('de-DE', '*-x', ''))), S.cp(None, ('dir', 'ltr')), S.cp(S.T('p'), ('dir', 'rtl')),
               S.cp(None, ('contains', False, ('x y', 'z'))), S.cp(None, ('contains', True, ('a"b',))), S.cp(None, ('contains', False, ('fr',)), ('lang', ('en', 'fr')))]
    simple += [S.cp(None, ('class', 'x ')), S.cp(None, ('id', 'a b')), S.cp(None, ('id', ' lead')), S.cp(S.T('t '), ('class', 'end\t')),
               S.cp(None, ('class', 'nb\xa0')), S.cp(None, ('attr', None, 'k ', '=', 'v ', None)), S.cp(None, ('id', 'q"')), S.cp(None, ('class', "o'"))]
    for s1 in simple:
        out.append((S.cx(s1),))
    out.append((S.cx(a, '>', S.cp(None, ('class', 'x '))),))
    out.append((S.cx(S.cp(None, ('id', 'a b')), ' ', a), S.cx(S.cp(None, ('class', 'y ')))))
    for k in S.COMBS:
        out.append((S.cx(a, k, b),))
        out.append((S.cx(S.cp(S.T('a'), cls), k, S.cp(None, ('pc', 'first-child'))),))
        out.append((S.cx(a, k, b, ' ', c),))
        out.append((S.cx(a, '>', b, k, c),))
    out += [(S.cx(a), S.cx(b)), (S.cx(a, '>', b), S.cx(c), S.cx(S.cp(None, cls))), (S.cx(S.cp(None, ('lang', ('en',)))), S.cx(a, ' ', b))]
    for fn in ('not', 'is', 'where', 'matches'):
        out.append((S.cx(S.cp(None, ('fn', fn, (S.cx(a), S.cx(b))))),))
        out.append((S.cx(S.cp(S.T('div'), ('fn', fn, (S.cx(a, '>', b), S.cx(S.cp(None, cls), ' ', c))))),))
        out.append((S.cx(S.cp(None, ('fn', fn, (S.cx(S.cp(None, ('fn', 'not', (S.cx(a),)))), S.cx(b)))), '+', a),))
    for k1, k2 in itertools.product(S.COMBS, repeat=2):
        out.append((S.cx(S.cp(None, ('has', ((k1, S.cx(a)), (k2, S.cx(b, '>', c)))))),))
    out.append((S.cx(S.cp(S.T('a'), ('has', ((' ', S.cx(S.cp(None, cls))),))), '~', S.cp(None, ('fn', 'is', (S.cx(b), S.cx(c))))),))
    if tier != 'quick':
        for s1, s2 in itertools.combinations(simple[::3], 2):
            out.append((S.cx(S.cp(None, s1[2][0]) if s1[1] is None else s1, '>', s2),))
    return out


def corpus():
    docs = []
    kid = lambda name, attrs=(), kids=(): ('e', name, tuple(attrs), tuple(kids))
    docs.append((kid('div', (('lang', 'en'),), (kid('a', (('class', ('c',)), ('id', 'i-1'), ('t', 'v w'))), ('t', 'x y'), kid('b', (('t', 'v'),), (kid('div'),)),
                                                kid('a', (('t', 'V'), ('type', 't')), (('t', 'fr'),)), kid('b', (), (('t', 'a"b'),)))),))
    docs.append((kid('a', (), (kid('b', (('class', ('c',)),), (kid('div', (('t', 'w-v'),)), kid('div'))), kid('b'), kid('p', (('dir', 'rtl'), ('lang', 'de-DE'))))),))
    docs.append((kid('div', (), tuple(kid('a' if i % 2 else 'b', (('t', 'v' * (i % 3)),)) for i in range(7))),))
    return docs


def shards(tier, seed):
    n = 48 if tier == 'quick' else 160
    return [(tier, i, n) for i in range(n)]


def choices(nsites_alts, tier):
    """All choice vectors: singles; pairs; (thorough) triples for small bases.  nsites_alts: list of alt counts per site."""
    n = len(nsites_alts)
    for s in range(n):
        for a in range(1, nsites_alts[s]):
            yield ((s, a),)
    if tier != 'quick' or n <= 14:
        for s1, s2 in itertools.combinations(range(n), 2):
            step = 1 if (tier != 'quick' or n <= 9) else 2
            for a1 in range(1, nsites_alts[s1], step):
                for a2 in range(1, nsites_alts[s2], step):
                    yield ((s1, a1), (s2, a2))
    if tier != 'quick' and n <= 7:
        for s1, s2, s3 in itertools.combinations(range(n), 3):
            for a1, a2, a3 in itertools.product(range(1, nsites_alts[s1]), range(1, nsites_alts[s2]), range(1, nsites_alts[s3])):
                yield ((s1, a1), (s2, a2), (s3, a3))


NS = {'x': 'urn:x'}


def compare(sv, base_text, var_text, docs):
    """None or (kind, detail)"""
    try:
        with shard.deadline(20):
            cb = sv.compile(base_text, NS)
    except Exception as e:
        return 'base-does-not-compile', f'{base_text!r}: {e!r}'
    try:
        with shard.deadline(20):
            cv = sv.compile(var_text, NS)
    except shard.CaseTimeout:
        return 'timeout', f'{var_text!r} did not compile within 20 s'
    except Exception as e:
        return 'variant-rejected', f'{var_text!r} (respelling of {base_text!r}) raised {type(e).__name__}: {str(e).splitlines()[0][:100]}'
    if cv.selectors != cb.selectors:
        return 'different-structure', f'{var_text!r} compiles to a different structure than {base_text!r}'
    for d in docs:
        g1, g2 = cb.select(d), cv.select(d)
        if len(g1) != len(g2) or any(x is not y for x, y in zip(g1, g2)):
            return 'different-selection', f'{var_text!r} selects {len(g2)} element(s), {base_text!r} selects {len(g1)}'
    return None


def site_kind(parts, idx):
    p = parts[idx]
    if p[0] == 'gap':
        return 'gap:' + p[1]
    if p[0] == 'ident':
        return 'ident-ci' if p[2] else 'ident'
    return p[0]


def alt_kind(parts, idx, a):
    alts = site_alts(parts[idx])
    t = alts[a]
    f = []
    if '/*' in t:
        f.append('comment-with-text' if 'x' in t else 'comment')
    if '\n' in t or '\r' in t or '\f' in t:
        f.append('newline')
    if '\\' in t:
        f.append('escape')
    if t != t.lower() and parts[idx][0] in ('ident', 'kw'):
        f.append('uppercase')
    if t == '':
        f.append('empty')
    if t.strip(' ') == '' and len(t) > 1:
        f.append('multi-space')
    if t.startswith("'"):
        f.append('single-quote')
    if parts[idx][0] == 'str' and not t.startswith(('"', "'")):
        f.append('bare-ident')
    return '+'.join(f) or 'plain'


def run_shard(desc):
    from .. import common
    sv = common.bind()
    warnings.simplefilter('ignore')
    tier, i, n = desc
    res = shard.Result()
    B = bases(tier)
    docs = [T.build_api(f) for f in corpus()] + [T.build_api(corpus()[0], True)]
    if i == 0:
        res.count('bases', len(B))
    k = 0
    for bi, lst in enumerate(B):
        parts = parts_of(lst)
        sites = sites_of(parts)
        base_text = render(parts)
        counts = [len(a) for _, a in sites]
        if i == 0:
            res.count('sites', len(sites))
        fails = 0
        for ch in choices(counts, tier):
            k += 1
            if k % n != i:
                continue
            choice = {sites[s][0]: a for s, a in ch}
            var_text = render(parts, choice)
            if k % 50 == 0:
                sv.purge()
            res.evaluations += 1
            if var_text == base_text:
                continue
            res.nontrivial += 1
            r = compare(sv, base_text, var_text, docs)
            if r is None:
                res.outcome('same-meaning')
                if k % 4001 == 0:
                    res.sample({'base': base_text, 'respelling': var_text})
                continue
            res.outcome(r[0])
            fails += 1
            if fails <= 3:
                # shrink the choice vector to the sites that matter
                ch2 = list(ch)
                for drop in list(ch):
                    if len(ch2) > 1:
                        trial = [x for x in ch2 if x != drop]
                        vt = render(parts, {sites[s][0]: a for s, a in trial})
                        rr = compare(sv, base_text, vt, docs)
                        if rr is not None and rr[0] == r[0]:
                            ch2 = trial
                vt = render(parts, {sites[s][0]: a for s, a in ch2})
                rr = compare(sv, base_text, vt, docs) or r
                sig = {'kind': rr[0], 'sites': '+'.join(sorted(site_kind(parts, sites[s][0]) for s, a in ch2)),
                       'alts': '+'.join(sorted(alt_kind(parts, sites[s][0], a) for s, a in ch2))}
                res.fail({'base_index': bi, 'tier': tier, 'choice': [list(x) for x in ch2], 'base': base_text, 'variant': vt}, sig, rr[1])
            else:
                res.failure_count += 1
    run_codepoints(sv, tier, i, n, res)
    return res


def run_codepoints(sv, tier, i, n, res):
    """A character and its hex escape are the same character, for every code point a selector can carry: all boundaries of the ranges the
    escape rules mention, plus every 13th code point from U+00A0 to U+10FFFF (thorough: every one), as class, id and quoted value, with the
    escape written short + blank and as six upper-case digits."""
    edges = [0xa0, 0xa1, 0xff, 0x100, 0x7ff, 0x800, 0xfff, 0x1000, 0xcfff, 0xd000, 0xd001, 0xd55c, 0xd7fe, 0xd7ff, 0xe000, 0xe001, 0xf8ff, 0xfdd0, 0xfeff,
             0xfffc, 0xfffd, 0xfffe, 0xffff, 0x10000, 0x10001, 0x1ffff, 0x20000, 0xe0001, 0xfffff, 0x100000, 0x10fffe, 0x10ffff]
    cps = edges + list(range(0xa0, 0x110000, 13 if tier == 'quick' else 1))     # U+0080-U+009F are not identifier characters for this parser (CSS 2.1 grammar); escape() escapes them (C10)
    fails = 0
    for idx in range(i, len(cps), n):
        cp = cps[idx]
        if 0xd800 <= cp <= 0xdfff:
            continue            # a surrogate escape means U+FFFD; the raw character is not the same thing
        ch = chr(cp)
        for form in ('.x%s', '#%s-', '[a="%sz"]'):
            base = form % ch
            for esc in ('\\%x ' % cp, '\\%06X' % cp, '\\%06x ' % cp):      # the blank after an escape belongs to it, also after all six digits
                var = form % esc
                res.evaluations += 1
                res.nontrivial += 1
                r = compare(sv, base, var, ())
                if r is None:
                    res.outcome('same-meaning')
                    continue
                res.outcome(r[0])
                fails += 1
                if fails <= 3:
                    where = 'below-surrogates' if cp < 0xd800 else ('bmp-above-surrogates' if cp < 0x10000 else 'astral')
                    res.fail({'base_index': -1, 'tier': tier, 'choice': [], 'base': base, 'variant': var},
                             {'kind': r[0], 'sites': 'codepoint:' + where, 'alts': 'hex-escape'}, f'U+{cp:04X}: ' + r[1])
                else:
                    res.failure_count += 1
        if idx % 5000 == 0:
            sv.purge()


def replay(case):
    from .. import common
    sv = common.bind()
    warnings.simplefilter('ignore')
    docs = [T.build_api(f) for f in corpus()] + [T.build_api(corpus()[0], True)]
    r = compare(sv, case['base'], case['variant'], docs)
    return ({'kind': r[0]}, r[1]) if r else None


def check(tier, seed):
    res, info = shard.run(__name__, shards(tier, seed), order_seed=seed)
    cov = {
        'rule': ('every base x every single-site rewrite, every two-site combination (quick: bases with <= 14 sites) and (thorough) every '
                 'three-site combination for bases with <= 7 sites; non-trivial = the respelled text differs from the canonical text; '
                 'choice vectors are distinct by construction'),
        'exhaustive': not info['cap_hit'],
        'bases': res.counters.get('bases'), 'rewrite_sites_total': res.counters.get('sites'),
        'alternatives_per_site_kind': {k: len(v) for k, v in ALTS.items()},
    }
    return {'result': res, 'coverage': cov, 'info': info,
            'assumptions': ['comments are only placed where CSS allows one without changing the token sequence (never between two adjacent compound parts)',
                            'IR equality is Immutable.__eq__ of the library (its own laws are C15) plus identical selections on a 4-document corpus']}
