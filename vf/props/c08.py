"""C08 — matching never raises on any tree.

Space: every pseudo-class name read from the parser tables (functional ones with several argument shapes), every attribute
operator, class and id — each alone, under :not(), after and before a combinator — against focus elements of 14 kinds
carrying every combination from attribute-content menus (type x min x max x value; dir x text; lang; name; placeholder;
list-valued class/rel), placed in 7 contexts (in a form/fieldset in a document, under a legend, several top-level nodes,
parentless, inside an iframe, XML soup, XHTML).  Odd attribute values the bs4 API permits (None, numbers, bytes, nested
lists) on attributes only attribute/class/id selectors read.  All six entry points; every element as target.
Oracle: each call returns a value of the documented type within a watchdog; TypeError is raised when (and only when) the
call target is not a Tag.
"""
from __future__ import annotations
import itertools
import warnings
from ..engine import shard
from ..gen import trees as T
from . import _sel

ID = 'C08'
LEVEL = 'exploration'
BIGYEAR = '9' * 4301
XHTML = 'http://www.w3.org/1999/xhtml'
SVG = 'http://www.w3.org/2000/svg'

TYPES = (None, '', 'date', 'month', 'week', 'time', 'datetime-local', 'number', 'range', 'text', 'radio', 'checkbox', 'bogus', 'DaTe', 'hidden', 'submit')
VALS_Q = (None, '', '2020-02-29', '2019-W53', '0999-W01', '10000-W10', '10:30', '2020-01-01T10:00', '5', 'x', '1e3', '4' * 4300 + '-01-01')
VALS_T = VALS_Q + ('2019-W00', '2019-W54', '2020-02-30', '25:00', '24:00', '-', '.5.', '-.5', '0000-01-01', '0000-W01', '2020-13', '2020-00-10',
                   '4' * 4300, '4' * 4300 + '-W01', '١٢', '2020-01-01\n', ' 5', '5 ', '+5', '99999-12-31', '1' * 400)
EXOTIC = ('\x80', '\x7f\xff\u0100', '\ud800', '\udfff\ud800', 'a\x00b', '\U0010ffff', '\u0130', '\u212a', '\xdf', '\x85', '\u2028')
KINDS = ('input', 'button', 'select', 'option', 'textarea', 'fieldset', 'form', 'progress', 'a', 'p', 'bdi', 'iframe', 'legend', 'optgroup')


def focus_elements(tier):
    """-> list of element specs ('e', name, attrs, children[, ns])"""
    out = []
    vals = VALS_Q if tier == 'quick' else VALS_T

    def el(name, attrs, kids=()):
        return ('e', name, tuple((k, v) for k, v in attrs if v is not None), tuple(kids))
    # range group: type x min x max x value
    # every (min, value) and (max, value) pair (each attribute is parsed on its own, comparisons are pairwise), plus small triples
    valid = {'date': ('2020-02-29', '2021-01-01'), 'month': ('2020-02', '2021-12'), 'week': ('2000-W53', '10000-W01'),
             'time': ('10:30', '23:59'), 'datetime-local': ('2020-01-01T10:00', '10000-01-01T00:00'), 'number': ('5', '-.5'),
             'range': ('5', '1e3'), 'DaTe': ('2020-02-29', '0001-01-01')}
    for t in TYPES:
        if tier == 'quick':
            v1, v2 = valid.get(t, ('5', '2020-02-29'))
            pv = (None, '', v1, v2, 'x', '99999' + ('-W01' if t == 'week' else '-01' if t == 'month' else '-01-01'))
            if t == 'week':
                pv += ('0400-W10', '0999-W52', '2019-W53', '4294967296-W01', '2147483648-W52')
            if t in ('date', 'month', 'datetime-local'):
                pv += (('4294967296-01-01', '4294967296-01', '4294967296-01-01T00:00')[('date', 'month', 'datetime-local').index(t)],)
            tv = (v1, v2, 'x')
        else:
            pv, tv = vals[:12] + vals[12::3], vals[1:7]
        for a, v in itertools.product(pv, pv):
            out.append(el('input', (('type', t), ('min', a), ('value', v))))
            if a is not None:
                out.append(el('input', (('type', t), ('max', a), ('value', v))))
        for mn, mx, v in itertools.product(tv, tv, tv):
            out.append(el('input', (('type', t), ('min', mn), ('max', mx), ('value', v))))
        out.append(el('input', (('type', t), ('min', vals[-1]), ('max', vals[-1]), ('value', vals[-1]))))
    # dir / text group
    texts = ((), (('t', 'abc'),), (('t', 'אב'),), (('t', '123'),), (('t', ''),), (('c', 'k'),), (('e', 'span', (), (('t', 'ע'),)),))
    for k in KINDS + ('span', 'div'):
        for d in (None, '', 'ltr', 'rtl', 'auto', 'AUTO', 'junk'):
            for tx in texts:
                if k == 'input':
                    for t in (None, 'text', 'tel', 'search', 'url', 'email', 'number', 'bogus'):
                        out.append(el('input', (('type', t), ('dir', d), ('value', 'אב' if tx and tx[0][0] == 't' and tx[0][1] == 'אב' else (tx[0][1] if tx and tx[0][0] == 't' else None)))))
                else:
                    out.append(el(k, (('dir', d),), tx))
    # lang / name / placeholder / state attributes / lists
    for k in KINDS:
        for lang in (None, '', 'en', '*', 'de-DE', '-', 'x-'):
            out.append(el(k, (('lang', lang), ('class', ('a', 'b')), ('rel', ('nofollow',)))))
        for name in (None, '', 'n'):
            for flags in itertools.product((None, ''), repeat=3):
                out.append(el(k, (('name', name), ('type', 'radio' if k == 'input' else None), ('checked', flags[0]), ('disabled', flags[1]),
                                  ('required', flags[2]))))
        for ph in (None, '', 'p'):
            for v in (None, '', 'v'):
                for tx in ((), (('t', '\n'),), (('t', 'x'),)):
                    out.append(el(k, (('placeholder', ph), ('value', v), ('readonly', None if v else ''), ('contenteditable', ph)), tx))
        out.append(el(k, (('href', 'u'), ('indeterminate', ''), ('selected', ''), ('type', 'checkbox' if k == 'input' else 'submit'))))
    # an iframe (with a document of its own inside) as the LAST node of an element, one and two levels down: walks that skip iframe content
    # must find their way out even when nothing follows, also in a detached fragment
    inner = ('e', 'html', (), (('e', 'body', (), (('e', 'form', (), (('e', 'input', (('type', 'radio'), ('name', 'n')), ()),)), ('t', 'in')),),))
    ifr = ('e', 'iframe', (), (inner,))
    for k in ('form', 'p', 'div', 'fieldset'):
        out.append(el(k, (('dir', 'auto'),), (('t', 'x'), el('input', (('type', 'radio'), ('name', 'n'))), ifr)))
        out.append(el(k, (('lang', 'en'),), (el('span', (), (('t', 'y'), el('b', (), (ifr,)))),)))
        out.append(el(k, (), (ifr, ('c', 'k'))))
        out.append(el(k, (), (ifr,)))
    # exotic string content (still plain `str`): lone surrogates, NUL, the last code point, characters whose case mappings change length or
    # leave ASCII (U+0130, U+212A, U+00DF), in every attribute the matcher reads and in tag and attribute names
    for x in EXOTIC:
        for k in ('input', 'p', 'bdi', 'option'):
            out.append(el(k, (('type', x), ('dir', x), ('lang', x), ('name', x), ('min', x), ('max', x), ('value', x), ('placeholder', x), ('class', (x, 'a')), ('id', x)),
                          (('t', x),)))
            for a in ('type', 'dir', 'lang', 'name', 'value', 'contenteditable', 'href'):
                out.append(el(k, ((a, x), ('type' if a != 'type' else 'min', 'radio' if a == 'name' else 'text' if a in ('dir', 'value') else x)), (('t', x),)))
        out.append(el('x' + x, (('a' + x, 'v'), ('dir', 'auto')), (('t', x), ('e', x + 'y', ((x, x),), ()))))
        out.append(el('input', ((x, x), ('type', 'date'), ('min', '2020-01-01'), ('value', '2020-01-01' + x))))
    return out


ODD = (None, 0, 3.5, b'x', b'\xff', ('a', ('b',)), (), ('a', None, 1), True, 'alpha' + ' ' * 48 + 'beta', 'a' + '\n\t ' * 20 + 'b', ' ' * 64)
ODD_SELECTORS = ['[t]', '[t=x]', '[t~=x]', '[t|=x]', '[t^=x]', '[t$=x]', '[t*=x]', '[t!=x]', '[t=x i]', '.c', '#i', '[class]', '[id=i]', '[class~=c]',
                 ':not([t=a])', '.c.d', '[t] > *', '* + [t="0"]']


def odd_elements():
    out = []
    for v in ODD:
        for attr in ('t', 'class', 'id'):
            out.append(('e', 'p', ((attr, v),), ()))
            out.append(('e', 'p', ((attr, v), ('id' if attr != 'id' else 't', 'i')), ()))
    return out


def selector_texts(sv, tier='thorough'):
    cp = sv.css_parser
    simple = sorted(set(getattr(cp, 'PSEUDO_SIMPLE', ())) | set(getattr(cp, 'PSEUDO_SIMPLE_NO_MATCH', ())))
    base = list(simple)
    cplx = sorted(set(getattr(cp, 'PSEUDO_COMPLEX', ())) | set(getattr(cp, 'PSEUDO_COMPLEX_NO_MATCH', ())))
    for n in cplx:
        if 'contains' in n:
            base += [f'{n}(x)', f'{n}("", "אב")']
        elif n == ':has':
            base += [':has(*)', ':has(> input)', ':has(+ *)', ':has(~ :checked)']
        else:
            base += [f'{n}(*)', f'{n}(input, :checked)']
    base += [':nth-child(0n+5)', ':nth-last-of-type(-0n+0)', ':nth-child(2n+1)', ':nth-child(-n+2 of input)', ':nth-last-child(1)', ':nth-of-type(2)', ':nth-last-of-type(odd)',
             ':lang(en)', ':lang("*-x")', ':lang("")', ':lang("*")', ':dir(ltr)', ':dir(rtl)',
             '[type=date]', '[min]', '[max=""]', '[value^="2"]', '[dir=auto i]', '[lang|=en]', '[name=n]', '.a', '#x', '[rel~=nofollow]']
    out = []
    # two pseudo-classes that keep per-call bookkeeping, evaluated in ONE call (a list, and a compound with :has): whatever one of them
    # remembers must not trip the other
    keepers = [':default', ':indeterminate', ':checked', ':dir(ltr)', ':lang(en)', ':in-range', ':root', ':-soup-contains(x)', ':has(> input)']
    for i_, a in enumerate(keepers):
        for b_ in keepers[i_ + 1:]:
            out.append(f'{a}, {b_}')
    out += ['form:has(:indeterminate):has(:default)', ':default:not(:indeterminate)', ':is(:default, :indeterminate, :checked):dir(ltr)']
    for b in base:
        out += [b, f':not({b})']
        if tier != 'quick' or b in simple or b.startswith((':lang', ':dir', ':nth')):
            out += [f'* > {b}', f'{b} + *']
    return out, base


CONTEXTS = ('form', 'legend', 'toplevel', 'parentless', 'iframe', 'xml', 'xhtml')


COMPANIONS = (
    ('e', 'input', (('type', 'radio'), ('name', 'n'), ('class', ('a', 'b')), ('checked', '')), ()),
    ('e', 'input', (('type', 'radio'), ('name', ''), ('rel', ('x',))), ()),
    ('e', 'button', (('type', 'submit'), ('class', ('s',))), ()),
    ('e', 'p', (('lang', 'en'), ('dir', 'auto'), ('class', 'plain string')), (('t', 'ab'),)),
    ('e', 'input', (('type', 'radio'), ('name', 'n'), ('id', 'r2')), ()),
)


def wrap(context, batch):
    """-> (forest, xml?, parentless?)   Fixed companions surround every batch so that code which scans OTHER elements of the same form
    or document (radio groups, default buttons, language lookup) meets list-valued and unusual attributes there too."""
    if context not in ('parentless', 'xhtml'):
        batch = list(COMPANIONS[:3]) + list(batch) + list(COMPANIONS[3:])
    if context == 'form':
        return (('e', 'html', (), (('e', 'body', (), (('e', 'form', (), (('e', 'fieldset', (('disabled', ''),), tuple(batch)),)),)),)),), False, False
    if context == 'legend':
        return (('e', 'form', (), (('e', 'fieldset', (('disabled', ''),), (('e', 'legend', (), tuple(batch)), ('e', 'legend', (), tuple(batch[:3])))),)),), False, False
    if context == 'toplevel':
        return (('t', 'x'),) + tuple(batch) + (('c', 'k'),), False, False
    if context == 'parentless':
        return tuple(batch), False, True
    if context == 'iframe':
        inner = ('e', 'html', (), (('e', 'body', (), (('e', 'form', (), tuple(batch)),)),))
        return (('e', 'html', (('lang', 'en'), ('dir', 'rtl')), (('e', 'body', (), (('e', 'form', (), (('e', 'iframe', (), (inner,)),)),)),)),), False, False
    if context == 'xml':
        return (('e', 'root', (), tuple(batch)),), True, False
    if context == 'xhtml':
        ns = (None, XHTML)
        b2 = tuple(n[:4] + (ns,) for n in batch)
        foreign = ('e', 'circle', (('dir', 'auto'), ('lang', 'en')), (), ('svg', SVG))
        unk = ('e', 'thing', (('type', 'date'), ('min', 'x')), (), ('u', 'urn:unknown'))
        return (('e', 'html', (), (('e', 'body', (), (('e', 'form', (), b2 + (foreign, unk), ns),), ns),), ns),), True, False
    raise ValueError(context)


def shards(tier, seed):
    n = 48 if tier == 'quick' else 160
    return [('odd-all', tier, k, 28) for k in range(28)] + [('main', tier, i, n) for i in range(n)] + \
        [('odd', tier, 0, 1), ('nontag', tier, 0, 1), ('huge', tier, 0, 1), ('degenerate', tier, 0, 1), ('codepoints', tier, 0, 1)] + \
        [('parsed', tier, d, 1) for d in ('forms', 'links', 'iframe', 'foreign', 'struct', 'iframe-meta')] + \
        [('pairs', tier, k, 16) for k in range(16)]


HUNG = set()


def shard_weight(desc):
    return {'odd-all': 3, 'main': 2}.get(desc[0], 1)


def call_all(sv, c, text, target, els, res, full=True):
    """Every entry point on one target; returns list of (entry, exception-or-type-problem)."""
    import bs4
    bad = []
    if text in HUNG:
        return bad          # already reported as hanging in this worker; asking again only burns the watchdog

    def run(entry, fn, typecheck):
        if text in HUNG:
            return
        try:
            with shard.deadline(5):
                r = fn()
                if entry == 'iselect':
                    r = list(r)
            res.evaluations += 1
            if not typecheck(r):
                bad.append((entry, 'returned ' + type(r).__name__))
        except shard.CaseTimeout:
            bad.append((entry, 'timeout'))
            HUNG.add(text)
        except Exception as e:
            bad.append((entry, type(e).__name__ + ': ' + str(e)[:100]))
    is_list = lambda r: isinstance(r, list) and all(isinstance(x, bs4.Tag) for x in r)
    if full:
        run('select', lambda: c.select(target), is_list)
        run('iselect', lambda: c.iselect(target, 2), is_list)
        run('select_one', lambda: c.select_one(target), lambda r: r is None or isinstance(r, bs4.Tag))
        run('filter', lambda: c.filter(target), is_list)
    if not isinstance(target, bs4.BeautifulSoup):
        run('match', lambda: c.match(target), lambda r: isinstance(r, bool))
        if full:
            run('closest', lambda: c.closest(target), lambda r: r is None or isinstance(r, bs4.Tag))
    return bad


def value_kind(spec):
    f = set()
    for k, v in spec[2]:
        if isinstance(v, str):
            digits = sum(ch.isdigit() for ch in v)
            if digits > 4300:
                f.add('huge-digit-run')
        elif isinstance(v, bytes):
            f.add('bytes')
        elif v is None:
            f.add('None')
        elif isinstance(v, (tuple, list)):
            f.add('list')
        else:
            f.add(type(v).__name__)
    return '+'.join(sorted(f))


def locate(sv, c, text, context, batch, entry, res):
    """Find single elements of the batch that reproduce the failure on their own."""
    out = []
    sib = ('e', 'p', (), ())
    for around in (False, True):
        for spec in batch:
            forest, xml, parentless = wrap(context, [sib, spec, sib] if around else [spec])
            for target, els in targets_of(forest, xml, parentless):
                bad = call_all(sv, c, text, target, els, shard.Result())
                if bad:
                    out.append((spec, bad[0], around))
                    break
            if len(out) >= 2:
                return out
        if out:
            return out
    return out


def targets_of(forest, xml, parentless):
    if parentless:
        for spec in forest:
            el = T.build_detached(spec, xml)
            yield el, [el]
    else:
        soup = T.build_api(forest, xml)
        els = T.elements(soup)
        yield soup, els
        for e in els:
            yield e, els


def run_main(sv, tier, i, n, res):
    import bs4
    texts, base = selector_texts(sv, tier)
    focus = focus_elements(tier)
    if i == 0:
        res.count('selectors', len(texts))
        res.count('focus_elements', len(focus))
    B = 24
    batches = [focus[k:k + B] for k in range(0, len(focus), B)]
    jobs = [(ctx, bi) for ctx in CONTEXTS for bi in range(len(batches))
            if tier != 'quick' or ctx in ('form', 'parentless', 'iframe', 'xhtml') or bi % 3 == 0]
    hung = set()
    for ji in range(i, len(jobs), n):
        context, bi = jobs[ji]
        batch = batches[bi]
        forest, xml, parentless = wrap(context, batch)
        tl = list(targets_of(forest, xml, parentless))
        for ti, text in enumerate(texts):
            if text in hung:
                res.count('skipped_after_timeout', 1)
                continue
            if ti % 64 == 0:
                sv.purge()
            try:
                c = sv.compile(text)
            except Exception as e:
                res.fail({'layer': 'compile', 'selector': text}, {'kind': 'compile', 'exc': type(e).__name__}, f'{text!r} does not compile: {e!r}')
                continue
            # document-level / batch-level calls first; per-element targets for match/closest
            nbad = 0
            for k, (target, els) in enumerate(tl):
                # all six entry points on the document, the wrappers and the first few focus elements (and on every parentless
                # element); match() alone on the remaining elements (select on the document already evaluated each of them)
                full = k < 4 or (k + ti) % 16 == 0
                if not full and tier == 'quick' and ti % 4 and ':scope' not in text:
                    continue        # quick: per-element match() for every fourth selector (select on the document evaluated them all)
                bad = call_all(sv, c, text, target, els, res, full)
                if bad:
                    nbad += 1
                    res.outcome('raised')
                    if bad[0][1] == 'timeout':
                        hung.add(text)
                        # find ONE element of the batch on which the call does not return on its own (so that the witness replays in a fresh
                        # interpreter); a short watchdog per element, stop at the first
                        culprit, sib = None, ('e', 'p', (), ())
                        for around in (False, True):
                            for spec in batch:
                                f1, x1, p1 = wrap(context, [sib, spec, sib] if around else [spec])
                                try:
                                    with shard.deadline(2):
                                        for t1, e1 in targets_of(f1, x1, p1):
                                            c.select(t1)
                                            if not isinstance(t1, bs4.BeautifulSoup):
                                                c.match(t1)
                                                c.closest(t1)
                                except shard.CaseTimeout:
                                    culprit = (spec, around)
                                    break
                                except Exception:
                                    pass
                            if culprit:
                                break
                        res.fail({'layer': 'main', 'context': context, 'element': culprit[0] if culprit else batch[0], 'selector': text, 'entry': bad[0][0],
                                  'around': culprit[1] if culprit else True},
                                 {'kind': 'raise', 'exc': 'timeout', 'values': value_kind(culprit[0]) if culprit else ''},
                                 f'[{context}] {bad[0][0]}({text!r}) did not return within the watchdog' + (f' on {T.to_markup((culprit[0],))[:120]!r}' if culprit else ''))
                        break
                    if nbad == 1:
                        found = locate(sv, c, text, context, batch, bad[0][0], res)
                        if not found:
                            found = [(('e', 'batch', (), ()), bad[0], False)]
                        for spec, (entry, why), around in found:
                            res.fail({'layer': 'main', 'context': context, 'element': spec, 'selector': text, 'entry': entry, 'around': around},
                                     {'kind': 'raise', 'exc': why.split(':')[0], 'values': value_kind(spec)},
                                     f'[{context}] {entry}({text!r}) on {T.to_markup((spec,))[:120]!r}: {why}')
                    else:
                        res.failure_count += 1
                else:
                    res.outcome('returned')
            res.nontrivial += 1 if not nbad else 0
        if ji % 11 == 0:
            res.sample({'context': context, 'elements': [T.to_markup((s,))[:80] for s in batch[:2]], 'selectors': texts[:3]})


ODD2 = ((1, None), ('a', ('b',)), (b'\xff', 2.5), None, 0, b'x', ('a', 'b'))


def run_odd_all_selectors(sv, tier, res, only=None):
    """Attributes that only attribute/class/id selectors read (class, id, data-x, t) carry odd values on a form, its controls and their
    neighbours, while EVERY selector (all pseudo-classes) is evaluated through all entry points."""
    texts, base = selector_texts(sv, tier)
    if tier == 'quick':
        texts = base          # quick: every pseudo-class / operator alone; thorough: also under :not(), after '>' and before '+'
    k = -1
    for v in ODD2:
        for attr in ('class', 'data-x', 't', 'id'):
            k += 1
            if only is not None and k != only:
                continue
            a = ((attr, v),)
            form = ('e', 'form', a, (('e', 'input', (('type', 'submit'),) + a, ()), ('e', 'input', (('type', 'radio'), ('name', 'n')) + a, ()),
                                     ('e', 'input', (('type', 'radio'), ('name', 'n'), ('checked', '')), ()), ('e', 'fieldset', (('disabled', ''),) + a, (('e', 'legend', a, (('e', 'input', (), ()),)),)),
                                     ('e', 'p', (('lang', 'en'), ('dir', 'auto')) + a, (('t', 'x'),)), ('e', 'input', (('type', 'number'), ('min', '1'), ('value', '3')) + a, ())))
            for xml in (False, True):
                soup = T.build_api((('e', 'html', (), (('e', 'body', a, (form, form)),)),), xml)
                els = T.elements(soup)
                for text in texts:
                    c = sv.compile(text)
                    for target in (soup, els[2], els[3]):
                        bad = call_all(sv, c, text, target, els, res)
                        if bad:
                            entry, why = bad[0]
                            res.fail({'layer': 'odd-all', 'attr': attr, 'value': _enc(('e', 'x', ((attr, v),), ()))[2][0][1], 'xml': xml, 'selector': text},
                                     {'kind': 'raise', 'exc': why.split(':')[0], 'values': value_kind(('e', 'x', ((attr, v),), ())) or 'odd'},
                                     f'{entry}({text!r}) on a form whose {attr} attribute is {v!r}: {why}')
                            break
                    res.outcome('odd-returned')
            res.nontrivial += 1


def run_odd(sv, res):
    import bs4
    for spec in odd_elements():
        for xml in (False, True):
            soup = T.build_api((('e', 'div', (), (spec, ('e', 'p', (('t', '0'),), ()))),), xml)
            els = T.elements(soup)
            for text in ODD_SELECTORS:
                c = sv.compile(text)
                for target in [soup] + els:
                    bad = call_all(sv, c, text, target, els, res)
                    if bad:
                        entry, why = bad[0]
                        res.fail({'layer': 'odd', 'element': _enc(spec), 'xml': xml, 'selector': text},
                                 {'kind': 'raise', 'exc': why.split(':')[0], 'values': value_kind(spec)},
                                 f'{entry}({text!r}) with attribute value {spec[2][0][1]!r}: {why}')
                        break
                    res.outcome('odd-returned')
            res.nontrivial += 1


def run_codepoints(sv, tier, res):
    """Every 17th code point (thorough: every one), surrogates included, plus the boundaries, as tag name, attribute name and as the value of the
    attributes whose content the matcher folds or scans (type, dir, lang): the six entry points return."""
    edges = [0, 1, 0x1f, 0x20, 0x40, 0x41, 0x5a, 0x5b, 0x60, 0x7a, 0x7b, 0x7e, 0x7f, 0x80, 0x81, 0x9f, 0xa0, 0xff, 0x100, 0x130, 0x131, 0x17f, 0x212a, 0xd7ff, 0xd800, 0xdbff,
             0xdc00, 0xdfff, 0xe000, 0xfffd, 0xffff, 0x10000, 0x10ffff]
    cps = edges + list(range(0, 0x110000, 17 if tier == 'quick' else 1))
    texts = [':dir(ltr)', '[type="x" i]', ':lang(en)', 'xa', '[ka]', ':in-range', ':default']
    comp = [(t, sv.compile(t)) for t in texts]
    B = 400
    for k in range(0, len(cps), B):
        chunk = cps[k:k + B]
        for xml in (False, True) if k % (4 * B) == 0 else (False,):
            forest = (('e', 'form', (), tuple(('e', 'x' + chr(cp) if cp else 'x', (('type', chr(cp)), ('dir', chr(cp) if cp % 2 else 'auto'), ('lang', 'e' + chr(cp)), ('k' + chr(cp), 'v'),
                                                                                      ('min', '1'), ('value', chr(cp))), (('t', chr(cp)),)) for cp in chunk)),)
            soup = T.build_api(forest, xml)
            els = T.elements(soup)
            for text, c in comp:
                bad = call_all(sv, c, text, soup, els, res)
                if bad:
                    # find one code point
                    entry, why = bad[0]
                    culprit = None
                    for cp in chunk:
                        s1 = T.build_api((('e', 'form', (), (forest[0][3][chunk.index(cp)],)),), xml)
                        if call_all(sv, c, text, s1, T.elements(s1), shard.Result()):
                            culprit = cp
                            break
                    res.fail({'layer': 'codepoints', 'cp': culprit if culprit is not None else chunk[0], 'xml': xml, 'selector': text},
                             {'kind': 'raise', 'exc': why.split(':')[0], 'values': 'code-point-sweep', 'where': 'ascii' if (culprit or 0) < 0x80 else 'surrogate' if 0xd800 <= (culprit or 0) <= 0xdfff else 'non-ascii'},
                             f'{entry}({text!r}) on a tree carrying U+{(culprit if culprit is not None else chunk[0]):04X} in a tag name / attribute name / type, dir, lang value: {why}')
                else:
                    res.outcome('returned')
        res.nontrivial += 1


def _enc(spec):
    def enc(v):
        if isinstance(v, bytes):
            return {'bytes': list(v)}
        if isinstance(v, tuple):
            return {'list': [enc(x) for x in v]}
        return v
    return [spec[0], spec[1], [[k, enc(v)] for k, v in spec[2]], []]


def _dec(spec):
    def dec(v):
        if isinstance(v, dict) and 'bytes' in v:
            return bytes(v['bytes'])
        if isinstance(v, dict) and 'list' in v:
            return tuple(dec(x) for x in v['list'])
        return v
    return ('e', spec[1], tuple((k, dec(v)) for k, v in spec[2]), ())


def run_nontag(sv, res):
    """TypeError exactly when the call target is not a Tag."""
    import bs4
    soup = bs4.BeautifulSoup('<p>x<!--c--></p>', 'html.parser')
    bad_targets = [None, 'p', 0, soup.p.contents[0], soup.p.contents[1], [soup.p], object()]
    for t in bad_targets:
        for entry in ('select', 'select_one', 'match', 'closest', 'iselect'):
            try:
                r = getattr(sv, entry)('p', t)
                if entry == 'iselect':
                    r = list(r)
                ok = False
                why = f'returned {r!r} instead of raising TypeError'
            except TypeError:
                ok, why = True, ''
            except Exception as e:
                ok, why = False, f'raised {type(e).__name__} instead of TypeError'
            res.evaluations += 1
            if not ok:
                res.fail({'layer': 'nontag', 'entry': entry, 'target': repr(type(t).__name__)}, {'kind': 'nontag', 'entry': entry},
                         f'{entry}("p", {type(t).__name__} object): {why}')
            else:
                res.outcome('TypeError-as-documented')
    res.nontrivial += 2


def huge_elements():
    """Digit runs beyond Python's int() conversion limit (4300): a layer of its own, so that the main product stays cheap."""
    out = []
    for t, tail in (('date', '-01-01'), ('month', '-01'), ('week', '-W01'), ('datetime-local', '-01-01T00:00'), ('number', ''), ('range', ''),
                    ('time', ':00')):
        for attr in ('min', 'max', 'value'):
            other = 'value' if attr != 'value' else 'min'
            out.append(('e', 'input', (('type', t), (attr, BIGYEAR + tail), (other, '1')), ()))
    return out


def run_huge(sv, tier, res):
    texts, base = selector_texts(sv, tier)
    for spec in huge_elements():
        forest, xml, parentless = wrap('form', [spec])
        tl = list(targets_of(forest, xml, parentless))
        for text in texts:
            c = sv.compile(text)
            for target, els in tl[:1] + tl[-1:]:
                bad = call_all(sv, c, text, target, els, res)
                if bad:
                    entry, why = bad[0]
                    res.outcome('raised')
                    res.fail({'layer': 'main', 'context': 'form', 'element': spec, 'selector': text, 'entry': entry, 'around': False},
                             {'kind': 'raise', 'exc': why.split(':')[0], 'values': value_kind(spec)},
                             f'[form] {entry}({text!r}) on {T.to_markup((spec,))[:60]!r}...: {why}')
                    break
                res.outcome('returned')
        res.nontrivial += 1


DEGENERATE = [('', 'html.parser'), ('just text', 'html.parser'), ('<!--c-->', 'html.parser'), ('<!DOCTYPE html>', 'html.parser'),
              ('', 'lxml'), ('', 'xml'), ('<!--c--> \n', 'lxml'), ('', 'html5lib'), ('<?xml version="1.0"?><!--c-->', 'xml'),
              ('api-empty-html', None), ('api-empty-xml', None), ('api-text-only', None)]


def degenerate_doc(markup, parser):
    import bs4
    if parser is None:
        soup = bs4.BeautifulSoup('', 'xml' if 'xml' in markup else 'html.parser')
        if 'text' in markup:
            soup.append(bs4.element.NavigableString('x'))
            soup.append(bs4.Comment('c'))
        return soup
    return bs4.BeautifulSoup(markup, parser)


def run_degenerate(sv, tier, res):
    """Documents without any element, and elements without any content."""
    texts, base = selector_texts(sv, tier)
    for di, (markup, parser) in enumerate(DEGENERATE):
        for text in texts:
            c = sv.compile(text)
            soup = degenerate_doc(markup, parser)
            bad = call_all(sv, c, text, soup, [], res)
            if bad:
                entry, why = bad[0]
                res.fail({'layer': 'degenerate', 'doc': di, 'selector': text},
                         {'kind': 'raise', 'exc': why.split(':')[0], 'values': 'element-less document'},
                         f'{entry}({text!r}) on an element-less document ({markup!r}, {parser}): {why}')
                break
            res.outcome('returned')
        res.nontrivial += 1


NS_FORMS = ['[*|href]', '[|href]', '[*|type=text]', '*|input', '*|*', '|*', '[*|lang]', '*|a:link', ':not([*|id])', '[*|id]:root', '*|* > [*|class~=c]']


def run_parsed(sv, tier, res, docname):
    """Trees as the real parsers build them (html.parser, lxml, html5lib, lxml-xml for XHTML and plain XML): namespace declarations kept as
    attributes, attributes with a namespace and without a name, doctype / processing-instruction / CDATA nodes, parser-inserted wrappers.
    Every selector text plus the namespace forms x every entry point x the document and every element (and every element once detached)."""
    import copy
    from . import _docs
    texts, base = selector_texts(sv, 'quick')
    texts = texts[::1 if tier != 'quick' else 3] + NS_FORMS
    for kind in _docs.KINDS:
        soup = _docs.build(docname, kind)
        els = T.elements(soup)
        detached = []
        if tier != 'quick' or docname in ('forms', 'iframe'):
            for e in T.elements(copy.copy(soup))[1::7]:
                detached.append(e.extract())
        for ti, text in enumerate(texts):
            if ti % 64 == 0:
                sv.purge()
            try:
                c = sv.compile(text)
            except Exception as e:
                res.fail({'layer': 'compile', 'selector': text}, {'kind': 'compile', 'exc': type(e).__name__}, f'{text!r} does not compile: {e!r}')
                continue
            nbad = 0
            for k, target in enumerate([soup] + els + detached):
                bad = call_all(sv, c, text, target, els, res, full=k == 0 or k > len(els) or (k + ti) % 5 == 0)
                if bad:
                    nbad += 1
                    res.outcome('raised')
                    if nbad == 1:
                        res.fail({'layer': 'parsed', 'doc': docname, 'kind': kind, 'selector': text, 'target': k - 1, 'entry': bad[0][0]},
                                 {'kind': 'raise', 'exc': bad[0][1].split(':')[0], 'values': 'parsed:' + kind, 'entry': bad[0][0] if bad[0][0] in ('match', 'closest') else 'select-like'},
                                 f'[{docname} via {kind}] {bad[0][0]}({text!r}) on {"the document" if k == 0 else str(target)[:80]!r}: {bad[0][1]}')
                    else:
                        res.failure_count += 1
                else:
                    res.outcome('returned')
            res.nontrivial += 1 if not nbad else 0
    res.count('parsed_documents', len(_docs.KINDS))


def pair_texts(sv):
    """Every unordered pair of pseudo-class atoms written as ONE compound (both orders when one of them reads text or keeps per-call
    bookkeeping): code that prepares something once per compound for 'the' pseudo-class of a kind meets a second one of a sibling kind."""
    _, base = selector_texts(sv, 'quick')
    atoms = [b for b in base if b.startswith(':')]
    ordered = [a for a in atoms if 'contains' in a or a.startswith((':default', ':indeterminate', ':dir', ':lang', ':in-range', ':out-of-range', ':root', ':has', ':empty'))]
    out = []
    for i, a in enumerate(atoms):
        for b in atoms[i:]:
            out.append(a + b)
            if a != b and (a in ordered or b in ordered):
                out.append(b + a)
    return out


def run_pairs(sv, tier, res, k, n):
    from . import _docs
    texts = pair_texts(sv)
    res.count('pair_compounds', len(texts) if k == 0 else 0)
    plan = [('forms', 'html.parser'), ('struct', 'html5lib')] if tier == 'quick' else \
        [(d, kind) for d in ('forms', 'links', 'iframe', 'foreign', 'struct', 'iframe-meta') for kind in _docs.KINDS]
    for docname, kind in plan:
        soup = _docs.build(docname, kind)
        els = T.elements(soup)
        for ti, text in enumerate(texts):
            if ti % n != k:
                continue
            if ti % 64 == k:
                sv.purge()
            try:
                c = sv.compile(text)
            except Exception as e:
                res.fail({'layer': 'compile', 'selector': text}, {'kind': 'compile', 'exc': type(e).__name__}, f'{text!r} does not compile: {e!r}')
                continue
            nbad = 0
            for j, target in enumerate([soup] + els):
                bad = call_all(sv, c, text, target, els, res, full=j == 0)
                if bad:
                    nbad += 1
                    res.outcome('raised')
                    if nbad == 1:
                        res.fail({'layer': 'parsed', 'doc': docname, 'kind': kind, 'selector': text, 'target': j - 1, 'entry': bad[0][0]},
                                 {'kind': 'raise', 'exc': bad[0][1].split(':')[0], 'values': 'parsed:' + kind, 'entry': 'pair-compound'},
                                 f'[{docname} via {kind}] {bad[0][0]}({text!r}) on {"the document" if j == 0 else str(target)[:80]!r}: {bad[0][1]}')
                    else:
                        res.failure_count += 1
                else:
                    res.outcome('returned')
            res.nontrivial += 1 if not nbad else 0


def run_shard(desc):
    from .. import common
    sv = common.bind()
    warnings.simplefilter('ignore')
    res = shard.Result()
    if desc[0] == 'parsed':
        run_parsed(sv, desc[1], res, desc[2])
    elif desc[0] == 'pairs':
        run_pairs(sv, desc[1], res, desc[2], desc[3])
    elif desc[0] == 'odd-all':
        run_odd_all_selectors(sv, desc[1], res, desc[2])
    elif desc[0] == 'degenerate':
        run_degenerate(sv, desc[1], res)
    elif desc[0] == 'huge':
        run_huge(sv, desc[1], res)
    elif desc[0] == 'main':
        run_main(sv, desc[1], desc[2], desc[3], res)
    elif desc[0] == 'odd':
        run_odd(sv, res)
    elif desc[0] == 'codepoints':
        run_codepoints(sv, desc[1], res)
    else:
        run_nontag(sv, res)
    return res


def replay(case):
    from .. import common
    sv = common.bind()
    warnings.simplefilter('ignore')
    if case['layer'] == 'nontag':
        r = shard.Result()
        run_nontag(sv, r)
        return (r.failures[0]['sig'], r.failures[0]['detail']) if r.failures else None
    if case['layer'] == 'compile':
        try:
            sv.compile(case['selector'])
            return None
        except Exception as e:
            return {'kind': 'compile', 'exc': type(e).__name__}, repr(e)
    text = case['selector']
    c = sv.compile(text)
    if case['layer'] == 'codepoints':
        cp = case['cp']
        spec = ('e', 'x' + chr(cp) if cp else 'x', (('type', chr(cp)), ('dir', chr(cp) if cp % 2 else 'auto'), ('lang', 'e' + chr(cp)), ('k' + chr(cp), 'v'), ('min', '1'), ('value', chr(cp))), (('t', chr(cp)),))
        s1 = T.build_api((('e', 'form', (), (spec,)),), case['xml'])
        bad = call_all(sv, c, text, s1, T.elements(s1), shard.Result())
        return ({'kind': 'raise', 'exc': bad[0][1].split(':')[0], 'values': 'code-point-sweep'}, str(bad[0])) if bad else None
    if case['layer'] == 'parsed':
        from . import _docs
        soup = _docs.build(case['doc'], case['kind'])
        els = T.elements(soup)
        for target in [soup] + els:
            bad = call_all(sv, c, text, target, els, shard.Result())
            if bad:
                return {'kind': 'raise', 'exc': bad[0][1].split(':')[0], 'values': 'parsed:' + case['kind']}, str(bad[0])
        return None
    if case['layer'] == 'odd-all':
        r = shard.Result()
        run_odd_all_selectors(sv, 'quick', r)
        for f_ in r.failures:
            if f_['case']['selector'] == case['selector'] and f_['case']['attr'] == case['attr']:
                return f_['sig'], f_['detail']
        return (r.failures[0]['sig'], r.failures[0]['detail']) if r.failures else None
    if case['layer'] == 'degenerate':
        soup = degenerate_doc(*DEGENERATE[case['doc']])
        bad = call_all(sv, c, text, soup, [], shard.Result())
        return ({'kind': 'raise', 'exc': bad[0][1].split(':')[0], 'values': 'element-less document'}, str(bad[0])) if bad else None
    if case['layer'] == 'odd':
        spec = _dec(case['element'])
        soup = T.build_api((('e', 'div', (), (spec, ('e', 'p', (('t', '0'),), ()))),), case['xml'])
        els = T.elements(soup)
        for target in [soup] + els:
            bad = call_all(sv, c, text, target, els, shard.Result())
            if bad:
                return {'kind': 'raise', 'exc': bad[0][1].split(':')[0], 'values': value_kind(spec)}, str(bad[0])
        return None
    spec = _sel.tup(case['element'])
    sib = ('e', 'p', (), ())
    forest, xml, parentless = wrap(case['context'], [sib, spec, sib] if case.get('around') else [spec])
    for target, els in targets_of(forest, xml, parentless):
        bad = call_all(sv, c, text, target, els, shard.Result())
        if bad:
            return {'kind': 'raise', 'exc': bad[0][1].split(':')[0], 'values': value_kind(spec)}, str(bad[0])
    return None


def check(tier, seed):
    res, info = shard.run(__name__, shards(tier, seed), order_seed=seed)
    cov = {
        'rule': ('every (context, batch of focus elements, selector) is queried through all six entry points with the document and every '
                 'element as target; evaluations = calls that returned or raised; non-trivial = (context, batch, selector) groups in which '
                 'every call returned a value of the documented type; groups are distinct by construction'),
        'exhaustive': not info['cap_hit'],
        'contexts': list(CONTEXTS), 'focus_elements': res.counters.get('focus_elements'), 'selectors': res.counters.get('selectors'),
        'odd_values': [repr(x) for x in ODD], 'pair_compounds': res.counters.get('pair_compounds'),
    }
    return {'result': res, 'coverage': cov, 'info': info,
            'assumptions': ['attribute values are strings or lists of strings except in the odd-value layer, which only uses attribute/class/id selectors',
                            'documents are API-built (parsers could not store several of these values)']}
