"""C07 — selector parsing time is polynomially bounded in the input length.

E5 pump-family enumeration.  Inventory (bound to the tree by an object-graph walk, so an edited or new regex is included
automatically): every re.Pattern in the module globals of css_parser / css_match / util / pretty, every tokenizer pattern in
CSSParser.css_tokens (and the sub-patterns of the special pseudo-class token), and the patterns that attribute selectors
compile into the IR (7 operators x {none, i} x value menu) which later run on document attribute values.
Space: all (prefix, pump, suffix) triples over a fragment alphabet, the pump repeated n times; each live regex is driven the
way the code drives it (match; search/finditer/sub where the module source does that), compile() is run end to end on the
same strings, and attribute patterns are run on pumped document values (also end to end through match()).
Oracle: (a) an input of <= 64 characters never takes 1 s; (b) on a doubling ladder up to n = 256 no family shows
super-polynomial growth (a ratio t(2n)/t(n) > 64 with t(2n) > 50 ms, or the 2 s cap hit right after a fast rung).
"""
from __future__ import annotations
import itertools
import re
import time
import warnings
from ..engine import shard

ID = 'C07'
LEVEL = 'exploration'

F = ['a', 'aa', '\\a', '\\61 ', '\\aa', '"', "'", ',', ' ', '\n', '/*', '*/', '*', '/**/', ' /**/', '-', '--', '[', ']', '=', '(', ')', '|',
     'n', '1', '+', ' of ', 'aa,', '0', '.', ':', 'T', 'W', '-*', '\\', '\\\n', '"a', 'é', '\r\n', '\r', '\f', '\t', '\r\n ', '\\\f', '\\\r', '\\\r\n', '\\\t',
     '[a=', '[a="', "[a='", ':lang(', ':-soup-contains(', ':nth-child(', ':is(', ':not(', '#', '.a', ':a', '::a', '@a',
     # An+B openings: what follows is a digit run, whose VALUE (not length) must not drive any loop
     ':nth-child(n-', ':nth-child(-n+', ':nth-last-of-type(2n+']
FV = ['a', 'b', ' ', '-', 'ab', 'a ', ' a', '\n', '\t', 'g', 'g ', ' g', 'G', '-g']
SEL_VALUES = ['g', 'a', 'a b', 'ab', '-', ' ']
# selector values that are regular-expression syntax: whatever the spelling (quoted, or an identifier with every character escaped) they must
# reach the pattern as literals, otherwise a document value of repeated 'g' backtracks exponentially
META_VALUES = ['(g+)+!', '(g|g)+!', '(g*)*!']
OPS = ['=', '~=', '|=', '^=', '$=', '*=', '!=']
SHORT_N = (30, 24, 18, 12, 6)
LADDER = (8, 16, 32, 64, 128, 256)
CAP = 2.0
FLOOR = 0.05
SHORT_LIMIT = 1.0
TICK = 0.01


def inventory(sv):
    """name -> (pattern object, modes)"""
    import inspect
    inv = {}
    mods = [sv.css_parser, sv.css_match, sv.util]
    try:
        from soupsieve import pretty
        mods.append(pretty)
    except Exception:
        pass
    for m in mods:
        try:
            src = inspect.getsource(m)
        except Exception:
            src = ''
        for name, v in sorted(vars(m).items()):
            if isinstance(v, re.Pattern):
                modes = ['match']
                if re.search(r'\b%s\.(search|sub|finditer|findall|split)\(' % re.escape(name), src) or m.__name__.endswith('pretty'):
                    modes.append('scan')
                inv[f'{m.__name__.split(".")[-1]}.{name}'] = (v, modes)
            elif isinstance(v, dict):
                for k, x in v.items():
                    if isinstance(x, re.Pattern):
                        inv[f'{m.__name__.split(".")[-1]}.{name}[{k}]'] = (x, ['match'])
    toks = getattr(sv.css_parser.CSSParser, 'css_tokens', ())
    for t in toks:
        for attr, v in vars(t).items():
            if isinstance(v, re.Pattern):
                inv[f'token.{getattr(t, "name", type(t).__name__)}.{attr}'] = (v, ['match'])
            if isinstance(v, dict):
                for k, x in v.items():
                    for a2, v2 in vars(x).items():
                        if isinstance(v2, re.Pattern):
                            inv[f'token.special[{k}].{a2}'] = (v2, ['match'])
    return inv


def attr_patterns(sv):
    """name -> compiled value pattern taken from the IR of '[t OP "VAL" FLAG]'."""
    from ..ref import ident
    out = {}
    texts = [('[t%s"%s"%s]' % (op, val, flag), f'attr{op}{val!r}{flag.strip()}') for op in OPS for val in SEL_VALUES for flag in ('', ' i')]
    texts += [('[t%s"%s"]' % (op, val), f'attr{op}{val!r}') for op in OPS for val in META_VALUES]
    texts += [('[t%s%s]' % (op, ident.serialize_ident(val)), f'attr{op}{val!r}-as-identifier') for op in OPS for val in META_VALUES]
    for text, name in texts:
        try:
            c = sv.compile(text)
        except Exception:
            continue
        stack = [c.selectors]
        seen = 0
        while stack and seen < 50:
            x = stack.pop()
            seen += 1
            if isinstance(x, re.Pattern):
                out[name] = x
                break
            for a in getattr(x, '__slots__', ()):
                if a != '_hash':
                    stack.append(getattr(x, a))
            if isinstance(x, tuple):
                stack.extend(x)
    return out


PROGRESS = [0]


def timed(fn, s, cap):
    """CPU seconds of fn(s), or None when the cap fired.  PROGRESS[0] = how far into s the driver got (0 if unknown)."""
    t0 = time.process_time()
    PROGRESS[0] = 0
    try:
        with shard.cpu_deadline(cap):
            r = fn(s)
            if isinstance(r, int):
                PROGRESS[0] = r
            elif r is not None and hasattr(r, 'end'):
                PROGRESS[0] = r.end()
    except shard.CaseTimeout:
        return None
    except Exception:
        pass
    return time.process_time() - t0


def judge(fn, make):
    """-> None | (kind, detail, n)   kind in short-input / super-polynomial.  Re-measures before reporting."""
    # (a) no input of a few dozen characters may take seconds
    unit = max(len(make(2)) - len(make(1)), 1)
    n = max((64 - (len(make(1)) - unit)) // unit, 1)      # as many repetitions as fit into 64 characters
    s = make(n)
    if len(s) <= 64:
        t = timed(fn, s, SHORT_LIMIT * 2)
        if t is None or t > SHORT_LIMIT:
            t2 = timed(fn, s, SHORT_LIMIT * 2)
            if t2 is None or t2 > SHORT_LIMIT:
                return 'short-input', f'{len(s)} characters take more than {SHORT_LIMIT} s', n
    # (b) growth on the doubling ladder; the largest rung decides whether anything needs measuring at all
    big = make(LADDER[-1])
    t = timed(fn, big, CAP)
    if t is not None and t < FLOOR:
        return ('walked', '', 0) if PROGRESS[0] * 2 >= len(big) else None
    times = []
    for n in LADDER:
        best = None
        for _ in range(2):
            x = timed(fn, make(n), CAP)
            if x is None:
                best = None
                break
            best = x if best is None else min(best, x)
        times.append(best)
        if best is None:
            break
    for i in range(1, len(times)):
        prev, cur = times[i - 1], times[i]
        if cur is None:
            if prev is not None and prev < CAP / 64:
                return 'super-polynomial', f't({LADDER[i - 1]})={prev:.4f}s then the {CAP}s cap at n={LADDER[i]}', LADDER[i]
            continue
        # the CPU-time clock ticks in steps of up to 10 ms: a rung that reads 0.000 may have cost almost a tick, so ratios are taken against at
        # least one tick (a polynomial of degree <= 6 stays below 64 per doubling; anything steeper reaches the cap a rung or two later anyway)
        if prev is not None and cur > FLOOR and cur / max(prev, TICK) > 64:
            return 'super-polynomial', f't({LADDER[i - 1]})={prev:.4f}s t({LADDER[i]})={cur:.4f}s ratio {cur / max(prev, TICK):.0f}', LADDER[i]
    return 'slow', f'times {times}', 0


def families(alpha, tier, what):
    """quick: single-fragment pumps with reduced prefix/suffix menus.  thorough: single-fragment pumps with the full menus (every fragment
    as prefix and as suffix) and two-fragment pumps with the reduced menus (the full product would be 8.5 M families x 47 drivers)."""
    pre = [''] + alpha
    suf = [''] + alpha + ['%']
    if what == 'pattern':
        rpre = [''] + [x for x in alpha if len(x) > 2 or x in ('a', '"', "'", ' ', '\\', '/*', '#', '[', ':a')]
        rsuf = ['', 'a', '"', "'", ')', ']', ' ', '|', '%', ',']
        if tier == 'quick':
            return rpre, list(alpha), rsuf, None
        return pre, list(alpha) + [a + b for a in alpha for b in alpha], suf, (set(alpha), rpre, rsuf)
    return pre, list(alpha), suf, None


CHAIN_N = (6, 12, 18, 24, 30)


def custom_chain(kind, n):
    """Custom maps whose total text grows linearly with n; compile time must stay polynomial in n."""
    c = {':--c0': 'a', ':--c1': 'b'}
    for k in range(2, n + 1):
        if kind == 'fib':
            c[':--c%d' % k] = ':--c%d:--c%d' % (k - 1, k - 2)
        elif kind == 'fib-list':
            c[':--c%d' % k] = ':--c%d, :--c%d' % (k - 1, k - 2)
        elif kind == 'double':
            c[':--c%d' % k] = ':--c%d :--c%d' % (k - 1, k - 1)
        elif kind == 'not':
            c[':--c%d' % k] = ':not(:--c%d, :--c%d)' % (k - 1, k - 2)
        else:
            c[':--c%d' % k] = 'p:--c%d' % (k - 1)
    return c


def run_custom_chains(sv, res):
    for kind in ('fib', 'fib-list', 'double', 'not', 'linear'):
        for use in (':--c%d', 'div > :--c%d', ':is(:--c%d, x)'):
            times = []
            for n in CHAIN_N:
                cm = custom_chain(kind, n)
                pat = use % n

                def fn(_s, cm=cm, pat=pat):
                    sv.purge()
                    sv.compile(pat, custom=cm)
                    return 0
                best = None
                for _ in range(2):
                    t = timed(fn, '', CAP)
                    if t is None:
                        best = None
                        break
                    best = t if best is None else min(best, t)
                times.append(best)
                res.evaluations += 1
                if best is None:
                    break
            res.nontrivial += 1
            bad = None
            for i in range(1, len(times)):
                prev, cur = times[i - 1], times[i]
                if cur is None and prev is not None and prev < CAP / 8:
                    bad = f'n={CHAIN_N[i - 1]}: {prev:.4f}s, then the {CAP}s cap at n={CHAIN_N[i]}'
                elif cur is not None and prev is not None and cur > FLOOR and cur / max(prev, TICK) > 16:
                    bad = f'n={CHAIN_N[i - 1]}: {prev:.4f}s, n={CHAIN_N[i]}: {cur:.4f}s (ratio {cur / max(prev, TICK):.0f} for {CHAIN_N[i] - CHAIN_N[i - 1]} more definitions)'
            if times and times[0] is None:
                bad = f'{CHAIN_N[0]} definitions already exceed the {CAP}s cap'
            if bad:
                res.outcome('super-polynomial')
                res.fail({'what': 'custom-chain', 'kind': kind, 'use': use}, {'kind': 'super-polynomial', 'driver': 'compile(custom chain)'},
                         f'compile({use.replace("%d", "N")!r}, custom=<{kind} chain of N definitions>): {bad}')
            else:
                res.outcome('custom-chain-polynomial')


def shards(tier, seed):
    out = [('custom-chain', tier, 0, 0)]
    _, pumps, _, _ = families(F, tier, 'pattern')
    per = 1 if tier == 'quick' else 8
    for i in range(0, len(pumps), per):
        out.append(('pattern', tier, i, min(i + per, len(pumps))))
    for i in range(len(FV)):
        out.append(('value', tier, i, i + 1))
    return out


def drivers(sv, inv):
    ds = []
    for name, (p, modes) in sorted(inv.items()):
        ds.append((name + '.match', p.match))
        if 'scan' in modes:
            ds.append((name + '.finditer', lambda s, p=p: max([m.end() for m in p.finditer(s)] or [0])))

    def comp(s):
        sv.purge()
        sv.compile(s)
        return len(s)
    ds.append(('compile()', comp))
    return ds


def run_shard(desc):
    from .. import common
    sv = common.bind()
    warnings.simplefilter('ignore')
    res = shard.Result()
    what, tier, lo, hi = desc
    if what == 'custom-chain':
        run_custom_chains(sv, res)
        return res
    if what == 'pattern':
        inv = inventory(sv)
        ds = drivers(sv, inv)
        pre, pumps, suf, reduced = families(F, tier, what)
        if lo == 0:
            res.count('regexes_in_inventory', len(inv))
            res.extra['inventory'] = sorted(inv)
    else:
        import bs4
        pats = attr_patterns(sv)
        ds = [(k + '.match', p.match) for k, p in sorted(pats.items())]
        soup = bs4.BeautifulSoup('<p t="x"></p>', 'html.parser')
        el = soup.p
        for op in OPS:
            for val in ('g', 'a b'):
                c = sv.compile('[t%s"%s"]' % (op, val))

                def m(s, c=c):
                    el['t'] = s
                    c.match(el)
                ds.append((f'match([t{op}"{val}"])', m))
        cls = sv.compile('.g')

        def mc(s):
            el['class'] = s
            cls.match(el)
        ds.append(('match(.g) on a class string', mc))
        pre, pumps, suf, reduced = families(FV, tier, what)
        if lo == 0:
            res.count('attribute_patterns_in_inventory', len(pats))
    flagged = {}
    for pump in pumps[lo:hi]:
        pre_, suf_ = (pre, suf) if reduced is None or pump in reduced[0] else (reduced[1], reduced[2])
        for a in pre_:
            for z in suf_:
                make = lambda n, a=a, pump=pump, z=z: a + pump * n + z
                for name, fn in ds:
                    if flagged.get(name, 0) >= 1 or res.failure_count >= 3:
                        # this driver (or this shard) is already reported; measuring more exponential cases only burns time
                        res.count('skipped_after_violation', 1)
                        continue
                    res.evaluations += 1
                    v = judge(fn, make)
                    if v is None:
                        res.outcome('fast')
                        continue
                    kind, detail, n = v
                    if kind == 'walked':
                        res.outcome('fast-and-walks-the-pump')
                        res.nontrivial += 1
                        continue
                    if kind == 'slow':
                        res.outcome('slow-but-polynomial')
                        res.nontrivial += 1
                        continue
                    res.outcome(kind)
                    flagged[name] = flagged.get(name, 0) + 1
                    res.fail({'what': what, 'prefix': a, 'pump': pump, 'suffix': z, 'driver': name, 'n': n},
                             {'kind': kind, 'driver': 'compile()' if name == 'compile()' else name.split('.')[0] + '.' + name.split('.')[1] if name.startswith(('css_', 'util', 'pretty', 'token')) else name},
                             f'{name} on {a!r} + {pump!r}*n + {z!r}: {detail}')
                if lo % 7 == 0 and a == '' and z == '':
                    res.sample({'family': [a, pump + ' * n', z], 'drivers': len(ds)})
    # non-trivial by rule: families whose pump can be matched by at least one token (counted below)
    return res


def replay(case):
    from .. import common
    sv = common.bind()
    warnings.simplefilter('ignore')
    res = shard.Result()
    if case['what'] == 'custom-chain':
        run_custom_chains(sv, res)
        for f in res.failures:
            if f['case']['kind'] == case['kind']:
                return f['sig'], f['detail']
        return (res.failures[0]['sig'], res.failures[0]['detail']) if res.failures else None
    if case['what'] == 'pattern':
        ds = dict(drivers(sv, inventory(sv)))
    else:
        import bs4
        pats = attr_patterns(sv)
        ds = {k + '.match': p.match for k, p in pats.items()}
        soup = bs4.BeautifulSoup('<p t="x"></p>', 'html.parser')
        el = soup.p
        for op in OPS:
            for val in ('g', 'a b'):
                c = sv.compile('[t%s"%s"]' % (op, val))

                def m(s, c=c):
                    el['t'] = s
                    c.match(el)
                ds[f'match([t{op}"{val}"])'] = m
        cls = sv.compile('.g')

        def mc(s):
            el['class'] = s
            cls.match(el)
        ds['match(.g) on a class string'] = mc
    fn = ds.get(case['driver'])
    if fn is None:
        return None
    a, pump, z = case['prefix'], case['pump'], case['suffix']
    v = judge(fn, lambda n: a + pump * n + z)
    if v is None or v[0] in ('slow', 'walked'):
        return None
    return {'kind': v[0], 'driver': case['driver']}, v[1]


def check(tier, seed):
    res, info = shard.run(__name__, shards(tier, seed), order_seed=seed)
    fast = res.outcomes.get('fast', 0)
    cov = {
        'rule': ('every (prefix, pump, suffix) family x every driver (live regex in each way the code uses it, compile(), attribute-value '
                 'matching) is timed at the largest short rung (<= 64 chars) and at n = 256, and on the whole doubling ladder when that is '
                 'not trivially fast; counted non-trivial: (family, driver) pairs where the driver demonstrably walks the pumped part '
                 '(its match / last token / successful compile reaches past half of the 256-repetition input) or that needed the full '
                 'ladder; distinct by construction'),
        'exhaustive': not info['cap_hit'],
        'fragment_alphabet': F, 'value_alphabet': FV, 'ladder': list(LADDER), 'thresholds': {'short_limit_s': SHORT_LIMIT, 'cap_s': CAP,
                                                                                           'floor_s': FLOOR, 'ratio': 64},
        'regex_inventory': res.extra.get('inventory', []),
        'fast_family_driver_pairs': fast,
    }
    return {'result': res, 'coverage': cov, 'info': info,
            'assumptions': ['CPU time is the observable; thresholds leave two to three orders of magnitude on either side and a flagged family is '
                            're-measured before it is reported', 'universal quantifier over lengths approximated by n <= 256 repetitions']}
