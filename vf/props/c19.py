"""C19 — text pseudo-classes see exactly the character data CSS/HTML count as content.

Space: a subject element whose child sequence is every word of length <= k over
{text 'ab', text 'cd', text ' ', text NBSP, Comment, CData, ProcessingInstruction, Declaration, Doctype,
 <span> (itself holding every word of length <= 2 over a sub-alphabet), <iframe> with text inside}
in an HTML soup and an XML soup x search strings {'', 'a', 'ab', 'bc', 'abcd', 'b c', quote-and-backslash} x
:-soup-contains / :contains / :-soup-contains-own with 1-2 values, two text pseudo-classes in one compound in both orders,
and :empty; plus deep-nesting layouts (text after an iframe that is a last child several levels down).
Oracle: descendant text = concatenation in document order of the text nodes that are none of the five special kinds
(iframe content excluded in HTML); own = some single direct text child contains the string; :empty = no element child and no
text child with a non-CSS-whitespace character.
"""
from __future__ import annotations
import itertools
import warnings
from ..engine import shard
from ..gen import trees as T, selectors as S
from ..ref import css as R
from . import _sel

ID = 'C19'
LEVEL = 'exploration'

LEAVES = [('t', 'ab'), ('t', 'cd'), ('t', ' '), ('t', '\xa0'), ('t', '\f\t\r\n'), ('t', '\x0b'), ('t', '\u2003'), ('t', 'q"\\'), ('t', '"a\''), ('c', 'ab'), ('cd', 'ab'), ('pi', 'ab'), ('decl', 'ab'), ('dt', 'ab')]
SUB = [('t', 'ab'), ('t', 'cd'), ('c', 'cd'), ('cd', 'cd'), ('e', 'i', (), ())]
SEARCH = ['', 'a', 'ab', 'bc', 'abcd', 'b c', 'cdab', 'q"\\', ' ', 'q"', '"a', "a'", '"', "'", '\\', 'b"c']


def span_variants():
    out = [('e', 'span', (), ())]
    for n in (1, 2):
        for w in itertools.product(SUB, repeat=n):
            out.append(('e', 'span', (), tuple(w)))
    return out


def alphabet(tier):
    iframe = ('e', 'iframe', (), (('t', 'ab'), ('e', 'p', (), (('t', 'cd'),))))
    spans = span_variants()
    if tier == 'quick':
        spans = spans[:1] + spans[1:6] + spans[6::4]
    return LEAVES + spans + [iframe]


def subjects(tier):
    k = 3 if tier == 'quick' else 4
    A = alphabet(tier)
    out = [()]
    for n in range(1, k + 1):
        if n == k and tier != 'quick':
            # length 4: leaves and three span shapes only
            A2 = LEAVES + [A[len(LEAVES)], A[len(LEAVES) + 1], A[-1]]
            out += list(itertools.product(A2, repeat=n))
        elif n == 3:
            A2 = LEAVES + A[len(LEAVES):len(LEAVES) + 4] + [A[-1]]
            out += list(itertools.product(A2, repeat=n))
        else:
            out += list(itertools.product(A, repeat=n))
    return out


def deep_layouts():
    """Text that follows an iframe sitting several last-child levels deep, and siblings after nested iframes."""
    out = []
    ifr = ('e', 'iframe', (), (('t', 'zz'), ('e', 'b', (), (('t', 'yy'),))))
    for depth in range(0, 4):
        inner = (ifr,)
        for d in range(depth):
            inner = (('e', 'span', (), (('t', 'ab'),) + inner),)
        out.append(('e', 'p', (), inner + (('t', 'tail'),)))
        out.append(('e', 'p', (), (('t', 'pre'),) + inner))
        out.append(('e', 'p', (), inner + (('e', 'em', (), (('t', 'tail'),)), ('c', 'tail'))))
    return out


def selectors(tier):
    out = []
    cont = lambda own, texts, alias=None: ('contains', own, tuple(texts), alias)
    for s in SEARCH:
        out.append((S.cx(S.cp(S.T('p'), cont(False, (s,)))),))
        out.append((S.cx(S.cp(S.T('p'), cont(True, (s,)))),))
        out.append((S.cx(S.cp(None, cont(False, (s,), 'contains'))),))
    for a, b in itertools.product(SEARCH[1:6], repeat=2):
        if a != b:
            out.append((S.cx(S.cp(S.T('p'), cont(False, (a, b)))),))
            out.append((S.cx(S.cp(S.T('p'), cont(True, (a, b)))),))
            out.append((S.cx(S.cp(S.T('p'), cont(False, (a,)), cont(True, (b,)))),))
            out.append((S.cx(S.cp(S.T('p'), cont(True, (a,)), cont(False, (b,)))),))
            out.append((S.cx(S.cp(S.T('p'), cont(True, (a,)), cont(True, (b,)))),))
            out.append((S.cx(S.cp(S.T('p'), cont(False, (a,)), cont(False, (b,)))),))
    out.append((S.cx(S.cp(None, ('pc', 'empty'))),))
    out.append((S.cx(S.cp(S.T('p'), ('fn', 'not', (S.cx(S.cp(None, ('pc', 'empty'))),)))),))
    out.append((S.cx(S.cp(S.T('span'), cont(False, ('cd',)))),))
    out.append((S.cx(S.cp(None, ('fn', 'not', (S.cx(S.cp(None, cont(False, ('ab',)))),)))),))
    out.append((S.cx(S.cp(S.T('p'), ('has', (('>', S.cx(S.cp(None, cont(True, ('cd',))))),)))),))
    for s in ('zz', 'yy', 'tail', 'abtail', 'ab'):
        out.append((S.cx(S.cp(S.T('p'), cont(False, (s,)))),))
    return out


def raw_selectors():
    """(AST, text): spellings a renderer would not produce - comments with words and quoted strings next to the commas, bare identifiers."""
    cont = lambda own, texts: ('contains', own, tuple(texts), None)
    out = []
    for own, name in ((False, '-soup-contains'), (True, '-soup-contains-own'), (False, 'contains')):
        ast = (S.cx(S.cp(S.T('p'), cont(own, ('ab', 'zz')))),)
        for text in ('p:%s("ab" /* "cd" */, "zz")', 'p:%s("ab", /* cd */ "zz")', 'p:%s( "ab" /* \'cd\' , x */ , zz )', 'p:%s(ab,zz)', "p:%s('ab'/* cd */,/* \"cd\" */'zz')",
                     'p:%s(\n"ab"\n,\n"zz"\n)', 'p:%s("ab" , /* a, "cd", b */ "zz")'):
            out.append((ast, text % name))
    # every search text also written as a bare identifier with its non-identifier characters escaped (what escape() would produce): the
    # value is the same text, quote characters included
    from ..ref import ident
    for term in SEARCH:
        if term:
            sp = ident.serialize_ident(term)
            out.append(((S.cx(S.cp(S.T('p'), cont(False, (term,)))),), 'p:-soup-contains(%s)' % sp))
            out.append(((S.cx(S.cp(S.T('p'), cont(True, (term, 'zz')))),), 'p:-soup-contains-own( %s , zz)' % sp))
    return out


PARSED_MARKUP = ('<div id="d"><script id="sc">var x</script><style id="st">p{}</style><template id="tp">tmpl<b>in</b></template><ruby id="rb">k<rt id="rt">ruby</rt><rp id="rp">(</rp></ruby>'
                 '<textarea id="ta">area</textarea><title id="ti">ttl</title><p id="e1"><!--c--></p><p id="e2"> \n</p><p id="cd"><![CDATA[cdat]]></p><noscript id="ns">nos</noscript>'
                 '<pre id="pr">\n pre</pre><p id="pi"><?pi x?></p></div>')


def run_parsed(sv, res):
    """Trees from the real parsers, which store the text of script / style / template / ruby annotations in subclasses of NavigableString: those
    are text nodes like any other (only comments, CDATA, processing instructions, declarations and doctypes are not)."""
    import bs4
    cont = lambda own, texts: ('contains', own, tuple(texts), None)
    needles = ['var', 'p{}', 'tmpl', 'in', 'ruby', '(', 'area', 'ttl', 'k', 'c', 'cdat', 'nos', 'pre', 'pi', 'x']
    sels = [((S.cx(S.cp(None, cont(own, (t,)))),), None) for t in needles for own in (False, True)]
    sels += [((S.cx(S.cp(None, ('pc', 'empty'))),), None), ((S.cx(S.cp(None, ('fn', 'not', (S.cx(S.cp(None, ('pc', 'empty'))),)))),), None),
             ((S.cx(S.cp(S.T('div'), cont(False, ('var', 'zz')))),), None), ((S.cx(S.cp(None, cont(False, ('rubyk', 'kruby', 'kruby(')))),), None)]
    for parser in ('html.parser', 'lxml', 'html5lib'):
        with warnings.catch_warnings():
            warnings.simplefilter('ignore')
            soup = bs4.BeautifulSoup(PARSED_MARKUP, parser)
        ctx = R.Ctx(soup)
        for lst, _ in sels:
            text = S.render(lst)
            r = _sel.run_case(sv, soup, lst, ctx=ctx, text=text)
            res.evaluations += 1
            if r['status'] == 'ok':
                res.outcome('agree')
                res.nontrivial += 1 if r['want'] else 0
            elif r['status'] == 'unspecified':
                res.unspecified += 1
            else:
                kinds = sorted({type(n).__name__ for n in soup.descendants if isinstance(n, bs4.element.NavigableString)} - {'NavigableString'})
                res.fail({'parsed': parser, 'selector': lst, 'text': text, 'subject': None, 'xml': False},
                         {'kind': r['status'], 'direction': r.get('direction', r.get('exc', '')), 'xml': False,
                          'selector': '+'.join(sorted(a for a in _sel.atoms_of(lst) if a.startswith(':'))), 'nodes': 'parsed:' + parser},
                         f'[{parser}; string classes in the tree: {kinds}] ' + r.get('detail', ''))


def shards(tier, seed):
    n = 48 if tier == 'quick' else 160
    return [(tier, i, n) for i in range(n)]


def kinds_in(children):
    f = set()
    for n in children:
        if n[0] == 'e':
            f.add(n[1])
            f |= {'in-' + n[1] + ':' + x for x in kinds_in(n[3])}
        elif n[0] == 't':
            f.add('text' if n[1].strip(' \t\n\r\f') else 'ws')
        else:
            f.add(n[0])
    return f


def run_shard(desc):
    from .. import common
    sv = common.bind()
    warnings.simplefilter('ignore')
    tier, i, n = desc
    res = shard.Result()
    subs = [('e', 'p', (), tuple(w)) for w in subjects(tier)] + deep_layouts()
    sels = [(lst, S.render(lst)) for lst in selectors(tier)] + raw_selectors()
    if i == 0:
        res.count('subjects', len(subs))
        res.count('selectors', len(sels))
        run_parsed(sv, res)
    B = 30
    batches = [subs[k:k + B] for k in range(0, len(subs), B)]
    for bi in range(i, len(batches), n):
        batch = batches[bi]
        forest = (('e', 'div', (), tuple(batch)),)
        for xml in (False, True):
            soup = T.build_api(forest, xml)
            ctx = R.Ctx(soup)
            for lst, text in sels:
                r = _sel.run_case(sv, soup, lst, ctx=ctx, text=text)
                res.evaluations += len(batch)
                st = r['status']
                if st == 'ok':
                    res.outcome('agree')
                    res.nontrivial += len([e for e in r['want'] if e.name == 'p'])
                elif st == 'unspecified':
                    res.unspecified += 1
                else:
                    res.outcome(st)
                    # locate a single subject that fails on its own
                    found = 0
                    for spec in batch:
                        s1 = T.build_api((('e', 'div', (), (spec,)),), xml)
                        r1 = _sel.run_case(sv, s1, lst, text=text)
                        if r1['status'] not in ('ok', 'unspecified'):
                            found += 1
                            if found <= 2:
                                res.fail({'subject': spec, 'xml': xml, 'selector': lst, 'text': text},
                                         {'kind': r1['status'], 'direction': r1.get('direction', r1.get('exc', '')), 'xml': xml,
                                          'selector': '+'.join(sorted(a for a in _sel.atoms_of(lst) if a.startswith(':'))) + ('+two-text-pcs' if text.count('contains') > 1 else ''),
                                          'nodes': '+'.join(sorted(x for x in kinds_in(spec[3]) if x not in ('text', 'ws')))[:80]},
                                         r1.get('detail', ''))
                            else:
                                res.failure_count += 1
                    if not found:
                        res.fail({'subject': ('e', 'div', (), tuple(batch)), 'xml': xml, 'selector': lst, 'text': text},
                                 {'kind': st, 'direction': r.get('direction', ''), 'xml': xml, 'selector': 'batch-only'}, r.get('detail', ''))
        if bi % 23 == 0:
            res.sample({'subject': T.to_markup((batch[len(batch) // 2],)), 'selector': sels[bi % len(sels)][1]})
    return res


def replay(case):
    from .. import common
    sv = common.bind()
    warnings.simplefilter('ignore')
    lst = _sel.tup(case['selector'])
    if case.get('parsed'):
        import bs4
        soup = bs4.BeautifulSoup(PARSED_MARKUP, case['parsed'])
        r = _sel.run_case(sv, soup, lst, text=case['text'])
        return None if r['status'] in ('ok', 'unspecified') else ({'kind': r['status'], 'direction': r.get('direction', '')}, r.get('detail', ''))
    spec = _sel.tup(case['subject'])
    soup = T.build_api((('e', 'div', (), (spec,)),) if spec[1] == 'p' else (spec,), case['xml'])
    r = _sel.run_case(sv, soup, lst, text=case['text'])
    if r['status'] in ('ok', 'unspecified'):
        return None
    return {'kind': r['status'], 'direction': r.get('direction', '')}, r.get('detail', '')


def check(tier, seed):
    res, info = shard.run(__name__, shards(tier, seed), order_seed=seed)
    cov = {
        'rule': ('every subject element (child word over the node alphabet) x every selector, HTML and XML soups, against the text-content '
                 'reference; evaluations count (subject, selector) pairs; non-trivial = the reference selects the subject; pairs distinct by construction'),
        'exhaustive': not info['cap_hit'], 'max_children': 3 if tier == 'quick' else 4, 'search_strings': SEARCH,
    }
    return {'result': res, 'coverage': cov, 'info': info,
            'assumptions': ['an <iframe> element as the subject of a text pseudo-class is not asserted', 'documents are API-built so that every node kind can be a child']}
