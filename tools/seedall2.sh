#!/bin/bash
cd /verif
mkdir -p /tmp/seedresults2
for d in seeded/C*-w2*; do
  id=$(basename $d); prop=${id%%-*}
  if [ -n "$1" ] && [[ "$id" != $1* ]]; then continue; fi
  tools/seedrun.py $d $prop > /tmp/seedresults2/$id.json 2>&1
  echo "$id $(grep -m1 '"exit"' /tmp/seedresults2/$id.json) $(grep -m1 '"tests"' /tmp/seedresults2/$id.json) demo=$(grep -m1 'demo_with_patch_exit' /tmp/seedresults2/$id.json)/$(grep -m1 'demo_clean_exit' /tmp/seedresults2/$id.json)"
done
