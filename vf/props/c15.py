"""C15 — compiled selectors are immutable values; the pattern cache is transparent.

E2 history search on the REAL cache: alphabet = compile(k) for 8 argument tuples (same pattern with flags 0/DEBUG, namespaces
None / {} / a two-entry map / the same map inserted in the other order, custom None / a map / a map differing only in key case),
purge(), compile(compiled_k), compile(compiled_k, extra argument), fill(bound-2), fill(bound).  BFS over histories, states
deduplicated by a boring LRU model; every transition replays the whole history on the real cache starting from purge().
Checked on every transition: the returned object == (and hashes like) a fresh uncached parse of the same arguments;
currsize <= bound; currsize == 0 after purge; pass-through returns the identical object; extra arguments raise ValueError.
E1 value laws: for all pairs of ~300 argument tuples equal <=> arguments equal and equal => same hash; pickle (all
protocols) / copy / deepcopy give an equal object with equal hash, identical part types and identical selections; every node
of the object graph rejects setattr, delattr and new attributes on every slot, every map rejects mutation, every node hashes.
"""
from __future__ import annotations
import collections
import contextlib
import copy
import io
import itertools
import pickle
import warnings
from ..engine import shard
from ..gen import trees as T

ID = 'C15'
LEVEL = 'model_checking'

PAT = 'p.a > b'
KEYS = {
    'k0': (PAT, None, None, 0),
    'k1': (PAT, None, None, 'DEBUG'),
    'k2': (PAT, {}, None, 0),
    'k3': (PAT, (('a', 'u'), ('b', 'v')), None, 0),
    'k4': (PAT, (('b', 'v'), ('a', 'u')), None, 0),
    'k5': (PAT, None, ((':--x', 'a'),), 0),
    'k6': (':--x', None, ((':--x', 'a'),), 0),
    'k7': (':--x', None, ((':--x', 'a'), (':--y', 'b')), 0),
    'k8': (':--item', None, ((':--item', ':--leaf'), (':--leaf', 'p')), 0),
    'k9': (':--item', None, ((':--item', ':--leaf'), (':--leaf', 'span')), 0),
}


def EXTRA_ARGS(sv):
    return {'flags': {'flags': sv.DEBUG}, 'namespaces': {'namespaces': {'x': 'y'}}, 'custom': {'custom': {':--z': 'p'}},
            'namespaces-empty': {'namespaces': {}}, 'custom-empty': {'custom': {}}, 'both-empty': {'namespaces': {}, 'custom': {}},
            'all': {'namespaces': {}, 'custom': {}, 'flags': sv.DEBUG}}


def args_of(sv, key):
    p, ns, cu, fl = KEYS[key]
    ns = dict(ns) if isinstance(ns, tuple) else ns
    cu = dict(cu) if isinstance(cu, tuple) else cu
    return p, ns, (sv.DEBUG if fl == 'DEBUG' else 0), cu


def canon_args(key):
    p, ns, cu, fl = KEYS[key]
    return (p, None if ns is None else frozenset(dict(ns).items()), None if cu is None else frozenset(dict(cu).items()), fl)


def quiet():
    return contextlib.redirect_stdout(io.StringIO())


def do_compile(sv, key):
    p, ns, fl, cu = args_of(sv, key)
    with quiet():
        return sv.compile(p, ns, fl, custom=cu)


def fresh_parse(sv, key):
    """What an uncached compile of these arguments yields."""
    p, ns, fl, cu = args_of(sv, key)
    cp, ct = sv.css_parser, sv.css_types
    with quiet():
        f = getattr(cp._cached_css_compile, '__wrapped__', None)
        if f is not None:
            return f(p, ct.Namespaces(ns) if ns is not None else None, ct.CustomSelectors(cu) if cu is not None else None, fl)
        sv.purge()
        return sv.compile(p, ns, fl, custom=cu)


class CacheModel:
    def __init__(self, sv):
        self.sv = sv
        info = sv.css_parser._cached_css_compile.cache_info()
        self.bound = info.maxsize
        self.refs = {}
        for k in KEYS:
            sv.purge()           # any library-side memo that purge() clears must not leak from one reference into the next
            self.refs[k] = fresh_parse(sv, k)

        self.alphabet = [('compile', k) for k in KEYS] + [('purge',)] + [('pass', k) for k in ('k0', 'k3', 'k6')] + \
                        [('pass-extra', k, x) for k in ('k0',) for x in ('flags', 'namespaces', 'custom', 'namespaces-empty', 'custom-empty', 'both-empty')] + \
                        [('pass-same', 'k1', 'flags'), ('pass-same', 'k3', 'namespaces'), ('pass-same', 'k4', 'namespaces'), ('pass-same', 'k5', 'custom')] + \
                        [('pass-after', 'k0', 'purge'), ('pass-after', 'k3', 'fill'), ('pass-copy', 'k6', 'pickle'), ('pass-copy', 'k3', 'deepcopy')] + \
                        [('fill', self.bound - 2), ('fill', self.bound)]
        self.merge = True

    # --- the boring LRU model: only used to merge states
    def model_state(self, hist):
        lru = collections.OrderedDict()
        fillc = 0
        for a in hist:
            if a[0] == 'pass-after':
                lru.clear()          # both variants end with purge(); the pass-through itself must not touch the cache
                continue
            if a[0] in ('compile', 'pass', 'pass-extra', 'pass-same', 'pass-copy'):
                k = canon_args(a[1])
                if a[0] != 'compile':
                    # the compiled object is obtained by compiling first
                    pass
                if k in lru:
                    lru.move_to_end(k)
                else:
                    lru[k] = True
                    while len(lru) > self.bound:
                        lru.popitem(last=False)
            elif a[0] == 'purge':
                lru.clear()
            elif a[0] == 'fill':
                for _ in range(a[1]):
                    fillc += 1
                    lru[('fill', fillc)] = True
                    while len(lru) > self.bound:
                        lru.popitem(last=False)
        return tuple('F' if isinstance(k, tuple) and k and k[0] == 'fill' else k for k in lru)

    def run(self, hist):
        """Replay hist on the real cache from purge(); returns list of observations (one per action)."""
        sv = self.sv
        sv.purge()
        obs = []
        fillc = 0
        for a in hist:
            if a[0] == 'compile':
                obs.append(do_compile(sv, a[1]))
            elif a[0] == 'purge':
                sv.purge()
                obs.append(None)
            elif a[0] == 'pass':
                c = do_compile(sv, a[1])
                obs.append((c, sv.compile(c)))
            elif a[0] == 'pass-extra':
                c = do_compile(sv, a[1])
                kw = EXTRA_ARGS(sv)[a[2]]
                try:
                    r = sv.compile(c, **kw)
                    obs.append(('returned', r))
                except ValueError:
                    obs.append(('ValueError',))
                except Exception as e:
                    obs.append(('other', type(e).__name__))
            elif a[0] == 'pass-after':
                c = do_compile(sv, a[1])
                if a[2] == 'purge':
                    sv.purge()
                else:
                    for _ in range(self.bound + 5):
                        fillc += 1
                        sv.compile('g%d' % fillc)
                    sv.purge()
                before = sv.css_parser._cached_css_compile.cache_info().currsize
                r = sv.compile(c)
                obs.append((c, r, before, sv.css_parser._cached_css_compile.cache_info().currsize))
            elif a[0] == 'pass-copy':
                c = do_compile(sv, a[1])
                cl = pickle.loads(pickle.dumps(c)) if a[2] == 'pickle' else copy.deepcopy(c)
                obs.append((cl, sv.compile(cl), 0, 0))
            elif a[0] == 'pass-same':
                c = do_compile(sv, a[1])
                p, ns, fl, cu = args_of(sv, a[1])
                kw = {'flags': {'flags': fl}, 'namespaces': {'namespaces': dict(reversed(list(ns.items()))) if ns else ns}, 'custom': {'custom': cu}}[a[2]]
                try:
                    r = sv.compile(c, **kw)
                    obs.append(('returned', r))
                except ValueError:
                    obs.append(('ValueError',))
                except Exception as e:
                    obs.append(('other', type(e).__name__))
            elif a[0] == 'fill':
                for _ in range(a[1]):
                    fillc += 1
                    sv.compile('f%d' % fillc)
                obs.append(None)
        return obs

    def check(self, hist, obs):
        sv = self.sv
        a, o = hist[-1], obs[-1]
        info = sv.css_parser._cached_css_compile.cache_info()
        if info.currsize > self.bound:
            return {'kind': 'cache-over-bound'}, f'currsize {info.currsize} > bound {self.bound} after {list(hist)}'
        if a[0] == 'purge' and info.currsize != 0:
            return {'kind': 'purge-does-not-empty'}, f'currsize {info.currsize} after purge()'
        if a[0] == 'compile':
            ref = self.refs[a[1]]
            if not (o == ref) or (o != ref):
                return {'kind': 'not-equal-to-fresh-parse', 'key': a[1]}, f'compile({a[1]}) after {list(hist[:-1])} != a fresh parse'
            if hash(o) != hash(ref):
                return {'kind': 'hash-differs-from-fresh-parse', 'key': a[1]}, f'hash differs for {a[1]} after {list(hist[:-1])}'
            if repr(o.selectors) != repr(ref.selectors) or o.pattern != ref.pattern or o.flags != ref.flags:
                return {'kind': 'structure-differs-from-fresh-parse', 'key': a[1]}, f'{a[1]}: repr of the structure differs'
            # every equal-argument key seen earlier in this history must have produced an equal object
            for b, ob in zip(hist[:-1], obs[:-1]):
                if b[0] == 'compile':
                    same_args = canon_args(b[1]) == canon_args(a[1])
                    if same_args != (ob == o):
                        return {'kind': 'equality-vs-arguments', 'keys': b[1] + '/' + a[1]}, \
                            f'{b[1]} and {a[1]}: arguments equal={same_args}, objects equal={ob == o}'
                    if same_args and hash(ob) != hash(o):
                        return {'kind': 'equal-but-different-hash', 'keys': b[1] + '/' + a[1]}, f'{b[1]} == {a[1]} but hashes differ'
        if a[0] in ('pass-after', 'pass-copy'):
            if o[0] is not o[1]:
                return {'kind': 'pass-through-not-identical', 'when': a[2]}, f'compile(compiled {a[1]}) after {a[2]} returned a different object'
            if o[2] != o[3]:
                return {'kind': 'pass-through-touches-cache', 'when': a[2]}, f'compile(compiled {a[1]}) changed the cache size from {o[2]} to {o[3]}'
            return None
        if a[0] == 'pass' and o[0] is not o[1]:
            return {'kind': 'pass-through-not-identical'}, f'compile(compiled {a[1]}) returned a different object'
        if a[0] == 'pass-same' and o != ('ValueError',):
            return {'kind': 'extra-argument-accepted', 'arg': a[2] + ' (equal to the compiled one)'}, f'compile(compiled {a[1]}, {a[2]}=<the value it was compiled with>) -> {o[0]}'
        if a[0] == 'pass-extra' and o != ('ValueError',):
            return {'kind': 'extra-argument-accepted', 'arg': a[2]}, f'compile(compiled, {a[2]}=...) -> {o[0]}'
        return None


def bfs(model, depth):
    seen = {model.model_state(())}
    frontier = collections.deque([()])
    states, transitions, replays = 1, 0, 0
    fails = []
    sample = None
    while frontier:
        hist = frontier.popleft()
        if len(hist) >= depth:
            continue
        for a in model.alphabet:
            h = hist + (a,)
            obs = model.run(h)
            replays += 1
            transitions += 1
            f = model.check(h, obs)
            if f:
                if len(fails) < 5:
                    fails.append((h, f))
                continue
            # hit/miss bookkeeping of the real cache against the model (a disagreement only switches merging off)
            ms = model.model_state(h)
            real = model.sv.css_parser._cached_css_compile.cache_info().currsize
            if real != len(ms):
                model.merge = False
            key = ms if model.merge else h
            if key not in seen:
                seen.add(key)
                states += 1
                frontier.append(h)
                if sample is None and len(h) >= 2:
                    sample = [list(x) for x in h]
    return states, transitions, replays, fails, sample


# ---------------------------------------------------------------- value laws
PATTERNS = ['p', 'p.a > b', '*', '#i', '[t=v]', '[t="v" i]', 'a, b', ':not(a, b)', ':is(a > b)', ':has(> a)', ':nth-child(2n+1)', ':nth-child(2 of a)', ':nth-last-child(2)', ':nth-of-type(2)', ':nth-last-of-type(-n+3)', ':only-child', ':last-of-type', ':-soup-contains-own("y")', ':has(+ a, > b)', '[t|=v s]',
            ':lang(en)', ':dir(ltr)', ':-soup-contains("x")', ':root', 'x|a', '[x|t]', ':checked', ':in-range', 'a b', 'a  b', 'A', ':hover', ':is()',
            # different texts that the parser reads alike (preprocessing, escapes, padding, comments): the objects differ because their patterns differ
            # integers whose hashes collide in CPython (hash(-1) == hash(-2)): equality must not be decided by the hash
            ':nth-child(-n+3)', ':nth-child(-2n+3)', ':nth-last-of-type(-n-1)', ':nth-last-of-type(-n-2)',
            'a\x00', 'a\ufffd', '\\61 ', ' a', 'a ', 'a/**/', '[t=\'v\']', '[t=v ]']
NSS = [None, {}, {'x': 'u'}, {'x': 'u', 'y': 'v'}, {'y': 'v', 'x': 'u'}, {'x': 'U'}]
CUSTOMS = [None, {}, {':--c': 'a'}, {':--c': 'a', ':--d': 'b'}, {':--d': 'b', ':--c': 'a'}]


def tuples(tier):
    out = []
    for p in PATTERNS:
        for ns in NSS:
            for cu in (CUSTOMS if p in ('p', 'a, b', ':root') or tier != 'quick' else CUSTOMS[:1]):
                for fl in (0, 1):
                    if fl and p not in ('p', 'p.a > b'):
                        continue
                    out.append((p, ns, cu, fl))
    return out


def ckey(t):
    p, ns, cu, fl = t
    return (p, None if ns is None else frozenset(ns.items()), None if cu is None else frozenset(cu.items()), fl)


def graph(obj, ct, seen=None, out=None):
    """Every Immutable / ImmutableDict node reachable from a compiled selector."""
    seen = set() if seen is None else seen
    out = [] if out is None else out
    if id(obj) in seen:
        return out
    seen.add(id(obj))
    if isinstance(obj, (ct.Immutable, ct.ImmutableDict)):
        out.append(obj)
    if isinstance(obj, ct.Immutable):
        for s in type(obj).__slots__:
            try:
                graph(getattr(obj, s), ct, seen, out)
            except AttributeError:
                pass
    elif isinstance(obj, (tuple, list)):
        for x in obj:
            graph(x, ct, seen, out)
    return out


def immutability(sv, c):
    ct = sv.css_types
    for node in graph(c, ct):
        try:
            hash(node)
        except Exception as e:
            return 'unhashable', f'{type(node).__name__} is not hashable: {e!r}'
        if isinstance(node, ct.Immutable):
            for s in type(node).__slots__:
                old = getattr(node, s, None)
                try:
                    setattr(node, s, old)
                    return 'setattr-accepted', f'{type(node).__name__}.{s} can be assigned'
                except AttributeError:
                    pass
                except Exception as e:
                    return 'setattr-wrong-exception', f'{type(node).__name__}.{s} = ... raised {type(e).__name__}'
                try:
                    delattr(node, s)
                    try:
                        object.__setattr__(node, s, old)
                    except Exception:
                        pass
                    return 'delattr-accepted', f'del {type(node).__name__}.{s} succeeded'
                except AttributeError:
                    pass
                except Exception as e:
                    return 'delattr-wrong-exception', f'del {type(node).__name__}.{s} raised {type(e).__name__}'
            try:
                setattr(node, 'brand_new_attribute', 1)
                return 'new-attribute-accepted', f'{type(node).__name__} accepts new attributes'
            except AttributeError:
                pass
            except Exception as e:
                return 'setattr-wrong-exception', f'new attribute on {type(node).__name__} raised {type(e).__name__}'
        else:
            for op, fn in (('setitem', lambda: node.__setitem__('k', 'v')), ('delitem', lambda: node.__delitem__('k')),
                           ('item-assignment', lambda: exec("node['k'] = 'v'", {'node': node})), ('update', lambda: node.update({'k': 'v'})),
                           ('clear', lambda: node.clear()), ('pop', lambda: node.pop('k', None))):
                try:
                    fn()
                    return 'map-mutation-accepted', f'{type(node).__name__}.{op} succeeded'
                except (TypeError, AttributeError):
                    pass
                except Exception as e:
                    if op == 'delitem' and isinstance(e, KeyError):
                        return 'map-mutation-accepted', f'{type(node).__name__} supports item deletion'
    return None


def types_of(c, ct):
    return [type(n).__name__ for n in graph(c, ct)]


CORPUS = None


def corpus():
    global CORPUS
    if CORPUS is None:
        kid = lambda n, a=(), k=(): ('e', n, tuple(a), tuple(k))
        CORPUS = [T.build_api((kid('div', (('lang', 'en'),), (kid('p', (('class', ('a',)), ('id', 'i'), ('t', 'v'))), kid('a', (), (kid('b'),)), kid('b', (('t', 'V'),), (('t', 'x'),)),
                                                               kid('input', (('type', 'checkbox'), ('checked', ''))), kid('p', (), (kid('b'),)))),)),
                  T.build_api((kid('a', (), (kid('b'), kid('b'))), kid('p')), True)]
    return CORPUS


def run_rejects(sv, res):
    """Every entry point x every kind of extra argument x compiled objects with and without maps of their own: a compiled selector plus
    an extra argument is rejected with ValueError (an empty map is an argument too)."""
    import bs4
    soup = bs4.BeautifulSoup('<div><p class="a"><b></b></p></div>', 'html.parser')
    entries = {'compile': lambda c, kw: sv.compile(c, **kw), 'select': lambda c, kw: sv.select(c, soup, **kw), 'select_one': lambda c, kw: sv.select_one(c, soup, **kw),
               'iselect': lambda c, kw: list(sv.iselect(c, soup, **kw)), 'match': lambda c, kw: sv.match(c, soup.p, **kw), 'filter': lambda c, kw: sv.filter(c, soup.div, **kw),
               'closest': lambda c, kw: sv.closest(c, soup.b, **kw)}
    for key in ('k0', 'k2', 'k3', 'k5'):
        c = do_compile(sv, key)
        for how, kw in EXTRA_ARGS(sv).items():
            for name, fn in entries.items():
                res.evaluations += 1
                try:
                    with quiet():
                        r = fn(c, kw)
                    out = 'returned ' + type(r).__name__
                except ValueError:
                    res.outcome('extra-argument-rejected')
                    res.nontrivial += 1
                    continue
                except Exception as e:
                    out = 'raised ' + type(e).__name__
                res.fail({'layer': 'reject', 'key': key, 'how': how, 'entry': name}, {'kind': 'extra-argument-accepted', 'arg': how, 'entry': 'compile' if name == 'compile' else 'query'},
                         f'{name}(compiled {key}, ..., {kw!r}) {out} instead of raising ValueError')


def run_map_laws(sv, res):
    """The map types on every sequence of <= 3 pairs over 2 keys x 2 values (repeated keys included): equal exactly when the mappings are equal,
    equal maps hash alike, and the same holds for the selectors compiled with them."""
    ct = sv.css_types
    pairs = [(k, v) for k in ('x', 'y') for v in ('u', 'v')]
    seqs = [()] + [s for n in (1, 2, 3) for s in itertools.product(pairs, repeat=n)]
    for cls_name in ('ImmutableDict', 'Namespaces', 'CustomSelectors'):
        cls = getattr(ct, cls_name)
        built = []
        for s in seqs:
            forms = [('pairs-list', list(s)), ('pairs-tuple', tuple(s)), ('dict', dict(s))]
            for how, arg in forms:
                try:
                    built.append((s, how, cls(arg)))
                except Exception as e:
                    res.fail({'layer': 'maps', 'cls': cls_name, 'seq': [list(x) for x in s], 'how': how}, {'kind': 'map-constructor-raises', 'exc': type(e).__name__},
                             f'{cls_name}({arg!r}) raised {e!r}')
        for s, how, m in built:
            res.evaluations += 1
            if dict(m) != dict(s) or len(m) != len(dict(s)) or sorted(m) != sorted(dict(s)):
                res.fail({'layer': 'maps', 'cls': cls_name, 'seq': [list(x) for x in s], 'how': how}, {'kind': 'map-content', 'how': how}, f'{cls_name}({how} of {s!r}) holds {dict(m)!r}')
        by_content = {}
        for s, how, m in built:
            by_content.setdefault(frozenset(dict(s).items()), []).append((s, how, m))
        reps = [v[0] for v in by_content.values()]
        for content, group in by_content.items():
            s0, how0, m0 = group[0]
            for s, how, m in group[1:]:
                res.evaluations += 1
                if not (m == m0) or m != m0 or hash(m) != hash(m0):
                    res.fail({'layer': 'maps', 'cls': cls_name, 'seq': [list(x) for x in s], 'how': how, 'other': [list(x) for x in s0], 'other_how': how0},
                             {'kind': 'equal-maps-differ' if m != m0 else 'equal-but-different-hash', 'cls': cls_name, 'repeated_key': len(dict(s)) != len(s) or len(dict(s0)) != len(s0)},
                             f'{cls_name}({how} {s!r}) vs {cls_name}({how0} {s0!r}): equal={m == m0}, same hash={hash(m) == hash(m0)} (same mapping {dict(s)!r})')
                else:
                    res.nontrivial += 1
            for s, how, m in reps:
                if frozenset(dict(s).items()) != content:
                    res.evaluations += 1
                    if m == m0:
                        res.fail({'layer': 'maps', 'cls': cls_name, 'seq': [list(x) for x in s], 'how': how, 'other': [list(x) for x in s0], 'other_how': how0},
                                 {'kind': 'different-maps-equal', 'cls': cls_name}, f'{cls_name}({s!r}) == {cls_name}({s0!r})')
    # the same through compile(): a map given as pairs with a repeated key is the mapping dict() makes of it
    for s in seqs:
        if len(dict(s)) == len(s):
            continue
        for kw in ('namespaces', 'custom'):
            conv = (lambda q: [(':--' + k, v) for k, v in q]) if kw == 'custom' else (lambda q: list(q))
            try:
                with quiet():
                    sv.purge()
                    a = sv.compile('p', **{kw: conv(s)})
                    b = sv.compile('p', **{kw: dict(conv(s))})
            except Exception:
                res.outcome('pairs-not-accepted-by-compile')
                continue
            res.evaluations += 1
            if a != b or hash(a) != hash(b) or len({a, b}) != 1:
                res.fail({'layer': 'maps', 'cls': 'compile:' + kw, 'seq': [list(x) for x in s], 'how': 'pairs-list', 'other': [list(x) for x in dict(s).items()], 'other_how': 'dict'},
                         {'kind': 'equal-but-different-hash' if a == b else 'equal-maps-differ', 'cls': 'compile', 'repeated_key': True},
                         f"compile('p', {kw}={conv(s)!r}) vs the same mapping as a dict: equal={a == b}, same hash={hash(a) == hash(b)}")
            else:
                res.nontrivial += 1


def run_values(sv, tier, i, n, res):
    ct = sv.css_types
    ts = tuples(tier)
    objs = []
    with quiet(), warnings.catch_warnings():
        warnings.simplefilter('ignore')
        for t in ts:
            sv.purge()
            objs.append(sv.compile(t[0], t[1], t[3], custom=t[2]))
    if i == 0:
        res.count('argument_tuples', len(ts))
        run_rejects(sv, res)
        run_map_laws(sv, res)
    for a in range(i, len(ts), n):
        ca, ka = objs[a], ckey(ts[a])
        res.evaluations += 1
        if ca.pattern != ts[a][0] or ca.flags != ts[a][3]:
            res.fail({'layer': 'pattern-attr', 'a': list(map(repr, ts[a])), 'ia': a, 'tier': tier}, {'kind': 'recorded-arguments-differ', 'what': 'pattern' if ca.pattern != ts[a][0] else 'flags'},
                     f'compile{ts[a]!r}: the object records pattern {ca.pattern!r} / flags {ca.flags!r}, not the arguments it was compiled from')
        for b in range(len(ts)):
            cb, kb = objs[b], ckey(ts[b])
            res.evaluations += 1
            eq = ca == cb
            # the same law one level down, on the selector structures themselves (== and != are separate methods there)
            peq, pne = ca.selectors == cb.selectors, ca.selectors != cb.selectors
            if peq == pne or (peq and hash(ca.selectors) != hash(cb.selectors)):
                res.fail({'layer': 'pair', 'a': list(map(repr, ts[a])), 'b': list(map(repr, ts[b])), 'ia': a, 'ib': b, 'tier': tier},
                         {'kind': 'eq-and-ne-disagree-on-structure' if peq == pne else 'equal-but-different-hash'},
                         f'selector structures of compile{ts[a]!r} and compile{ts[b]!r}: == gives {peq}, != gives {pne}')
            if eq != (ka == kb) or (ca != cb) == eq:
                res.fail({'layer': 'pair', 'a': list(map(repr, ts[a])), 'b': list(map(repr, ts[b])), 'ia': a, 'ib': b, 'tier': tier},
                         {'kind': 'equality-vs-arguments', 'differ_in': '+'.join(n_ for n_, x, y in zip(('pattern', 'namespaces', 'custom', 'flags'), ka, kb) if x != y) or 'nothing'},
                         f'compile{ts[a]!r} == compile{ts[b]!r} is {eq}, arguments equal is {ka == kb}')
            elif eq:
                res.nontrivial += 1 if a != b else 0
                if hash(ca) != hash(cb):
                    res.fail({'layer': 'pair', 'a': list(map(repr, ts[a])), 'b': list(map(repr, ts[b])), 'ia': a, 'ib': b, 'tier': tier},
                             {'kind': 'equal-but-different-hash'}, f'compile{ts[a]!r} == compile{ts[b]!r} but their hashes differ')
        # round trips
        makers = [('copy', lambda: copy.copy(ca)), ('deepcopy', lambda: copy.deepcopy(ca))] + \
                 [('pickle%d' % p, lambda p=p: pickle.loads(pickle.dumps(ca, p))) for p in range(0, pickle.HIGHEST_PROTOCOL + 1)]
        clones = []
        for how, mk in makers:
            try:
                clones.append((how, mk(), None))
            except Exception as e:
                clones.append((how, None, f'raises {type(e).__name__}: {str(e)[:120]}'))
        for how, cl, err in clones:
            res.evaluations += 1
            why = err
            if why:
                pass
            elif not (cl == ca) or cl != ca:
                why = 'clone is not equal to the original'
            elif hash(cl) != hash(ca):
                why = 'clone hashes differently'
            elif types_of(cl, ct) != types_of(ca, ct):
                why = 'clone is built from different part types'
            elif repr(cl) != repr(ca) or repr(cl.selectors) != repr(ca.selectors):
                why = 'clone prints differently'
            else:
                for d in corpus():
                    with warnings.catch_warnings():
                        warnings.simplefilter('ignore')
                        if [id(x) for x in cl.select(d)] != [id(x) for x in ca.select(d)]:
                            why = 'clone selects different elements'
            if why:
                res.fail({'layer': 'clone', 'a': list(map(repr, ts[a])), 'ia': a, 'how': how, 'tier': tier},
                         {'kind': 'round-trip', 'how': 'pickle' if how.startswith('pickle') else how, 'what': why.split(':')[0],
                          'maps': ts[a][1] is not None or ts[a][2] is not None}, f'{how} of compile{ts[a]!r}: {why}')
            else:
                res.outcome('round-trip-ok')
                res.nontrivial += 1
        if ts[a][1] or ts[a][2]:
            ns_in = dict(ts[a][1]) if ts[a][1] is not None else None
            cu_in = dict(ts[a][2]) if ts[a][2] is not None else None
            sv.purge()
            with quiet():
                mine = sv.compile(ts[a][0], ns_in, ts[a][3], custom=cu_in)
                before = (repr(mine), hash(mine), pickle.dumps(mine, 2))
                if ns_in is not None:
                    ns_in['injected'] = 'urn:later'
                    ns_in.pop('x', None)
                if cu_in is not None:
                    cu_in[':--injected'] = 'div'
                    cu_in.pop(':--c', None)
                after = (repr(mine), hash(mine), pickle.dumps(mine, 2))
                again = sv.compile(ts[a][0], dict(ts[a][1]) if ts[a][1] is not None else None, ts[a][3],
                                   custom=dict(ts[a][2]) if ts[a][2] is not None else None)
            res.evaluations += 1
            if before != after or not (again == ca) or hash(again) != hash(ca):
                res.fail({'layer': 'alias', 'a': list(map(repr, ts[a])), 'ia': a, 'tier': tier}, {'kind': 'caller-dict-aliased'},
                         f'compile{ts[a]!r}: editing the dict the caller passed in changed the compiled object (or a later compile of the same arguments)')
            else:
                res.outcome('caller-dict-copied')
        r = immutability(sv, ca)
        res.evaluations += 1
        if r:
            res.fail({'layer': 'immutable', 'a': list(map(repr, ts[a])), 'ia': a, 'tier': tier}, {'kind': r[0]}, f'compile{ts[a]!r}: {r[1]}')
        else:
            res.outcome('immutable')
        if a % 53 == 0:
            res.sample({'arguments': list(map(repr, ts[a])), 'graph_nodes': len(graph(ca, ct))})


def shards(tier, seed):
    return [('bfs', tier, 0, 1)] + [('values', tier, i, 15) for i in range(15)]


def run_shard(desc):
    from .. import common
    sv = common.bind()
    res = shard.Result()
    what, tier, i, n = desc
    if what == 'values':
        run_values(sv, tier, i, n, res)
        return res
    warnings.simplefilter('ignore')
    model = CacheModel(sv)
    depth = 3 if tier == 'quick' else 4
    states, transitions, replays, fails, sample = bfs(model, depth)
    res.count('states', states)
    res.count('transitions', transitions)
    res.count('replays', replays)
    res.evaluations += transitions
    res.nontrivial += states
    res.extra['cache_bound'] = model.bound
    res.extra['model_merging'] = model.merge
    res.extra['depth'] = depth
    for h, (sig, detail) in fails:
        res.fail({'layer': 'bfs', 'hist': [list(x) for x in h]}, sig, detail)
    if sample:
        res.sample({'history': sample, 'cache_bound': model.bound})
    sv.purge()
    return res


def _same(a, b):
    norm = lambda x: [norm(i) for i in x] if isinstance(x, (list, tuple)) else x
    return norm(a) == norm(b)


def replay(case):
    from .. import common
    sv = common.bind()
    warnings.simplefilter('ignore')
    if case['layer'] == 'bfs':
        model = CacheModel(sv)
        h = tuple(tuple(x) for x in case['hist'])
        for n in range(1, len(h) + 1):
            f = model.check(h[:n], model.run(h[:n]))
            if f:
                return f
        return None
    r = shard.Result()
    if case['layer'] in ('reject', 'maps'):
        (run_rejects if case['layer'] == 'reject' else run_map_laws)(sv, r)
        keys = [k for k in case if k != 'layer']
        for f in r.failures:
            if f['case']['layer'] == case['layer'] and all(_same(f['case'].get(k), case[k]) for k in keys):
                return f['sig'], f['detail']
        return None
    ts = tuples(case['tier'])
    # re-run the slice that contains the tuple
    run_values(sv, case['tier'], case['ia'] % 15, 15, r)
    for f in r.failures:
        if f['case'].get('ia') == case['ia'] and f['case']['layer'] == case['layer']:
            return f['sig'], f['detail']
    return None


def check(tier, seed):
    res, info = shard.run(__name__, shards(tier, seed), order_seed=seed)
    cov = {
        'states': max(res.counters.get('states', 0), 1), 'transitions': max(res.counters.get('transitions', 0), 1),
        'traces_validated_against_impl': res.counters.get('replays', 0),
        'evaluations': res.evaluations,
        'rule': ('states = distinct LRU-model states reached by BFS over call histories; transitions = histories executed on the real cache (each '
                 'replayed from purge()) and checked; plus all ordered pairs of argument tuples and all round trips / mutation attempts; non-trivial = '
                 'model states + equal pairs of distinct tuples + successful round trips'),
        'depth_bound': res.extra.get('depth'), 'cache_bound': res.extra.get('cache_bound'), 'state_merging': res.extra.get('model_merging'),
        'exhaustive': not info['cap_hit'], 'argument_tuples': res.counters.get('argument_tuples'),
    }
    return {'result': res, 'coverage': cov, 'info': info,
            'assumptions': ['the LRU model is only a deduplication device; if the real hit/miss counts disagree with it merging is switched off',
                            "'fresh parse' = the undecorated function behind the cache (functools __wrapped__)"]}
