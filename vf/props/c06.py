"""C06 — compile() accepts or rejects every string with a documented error only.

Space: every string of <= k lexemes over an alphabet of ~55 lexemes (identifiers, every operator and bracket, quotes,
escapes incl. NUL / out-of-range / surrogate / trailing backslash, newlines, combinators, function openers, at-rule and
pseudo-element starts, comments, custom names, huge numbers, non-ASCII characters that Python's re.I folds onto ASCII),
plus deeper words over a 16-lexeme core; and every custom-selector map with <= 2 entries over key/value menus x using patterns.
Oracle: the outcome is a compiled object, SelectorSyntaxError, or NotImplementedError (only with '@' or '::' in reach);
KeyError only for two custom names equal after CSS unescaping + ASCII lower-casing; nothing else may escape.
"""
from __future__ import annotations
import itertools
import re
import warnings
from ..engine import shard

ID = 'C06'
LEVEL = 'exploration'

BIG = '9' * 4301
SIGMA = [
    'a', 'B', 'div', '-', '--', '_', '1', '0', BIG, 'é', '\U0001F600', '\ud800', 'ſ', 'İ', 'K', '\x01', '\x1b', '\x7f', '\x85', '\u2028', '\ufeff', '\uffff', '\U000e0001',
    '*', '|', '#', '.', '[', ']', '=', '~=', '|=', '^=', '$=', '*=', '!=', '"', "'", '\\', '\\0', '\\110000', '\\ffffff', '\\d800',
    '\\\n', '\x00', ' ', '\n', '\r', '\f', '\t', ',', '>', '+', '~', ':', '::', '(', ')',
    ':not(', ':is(', ':has(', ':nth-child(', ':nth-of-type(', '2n+1', ' of ', ':lang(', ':dir(', 'ltr', ':-soup-contains(', ':contains(',
    '@page', '&', '/*', '*/', '/**/', ':--x', ':root', ':hover', ' i', ' s', 'n', 'even', '[a=b', '[a="b"',
    # pseudo-class names with a letter written as an escape (of the upper-case and of the lower-case letter): every place that looks the name up
    # must normalise it the same way
    ':\\4e th-child(', ':\\4c ang(', ':n\\4f t(', ':\\64 ir(', ':-soup-\\43ontains(', ':\\52oot',
    # text that means something to str.format / % formatting: error messages quote the input
    '{', '}', '{0}', '%s', '%(a)s', '\\{',
]
CORE = ['a', '*', '|', '#', '.', '[', ']', '=', '"', '\\', ' ', ',', '>', ':', '(', ')']
CORE2 = ['a', '[', ']', '=', '"', "'", '\\', ' i', ' ſ', ':not(', ')', ',']


def shards(tier, seed):
    out = []
    k = 3 if tier == 'quick' else 4
    for a in range(len(SIGMA)):
        if tier == 'quick':
            out.append(('sigma', k, (a,)))
        else:
            for b in range(len(SIGMA)):
                out.append(('sigma', k, (a, b)))
    kc = 4 if tier == 'quick' else 6
    for a in range(len(CORE)):
        for b in range(len(CORE)):
            out.append(('core', kc, (a, b)))
    for a in range(len(CORE2)):
        out.append(('core2', 5 if tier == 'quick' else 6, (a,)))
    for i in range(32):
        out.append(('custom', i, 32))
    return out


def words(alpha, k, prefix):
    """All words of length len(prefix)..k that start with prefix (the prefix itself included), as lexeme index tuples."""
    yield prefix
    for n in range(1, k - len(prefix) + 1):
        for rest in itertools.product(range(len(alpha)), repeat=n):
            yield prefix + rest


def classify(sv, pattern, custom=None):
    """-> (class, exception or None)"""
    try:
        with shard.deadline(20):
            r = sv.compile(pattern, custom=custom) if custom is not None else sv.compile(pattern)
    except shard.CaseTimeout:
        return 'timeout', None
    except sv.SelectorSyntaxError:
        return 'SelectorSyntaxError', None
    except NotImplementedError as e:
        return 'NotImplementedError', e
    except BaseException as e:   # noqa: B902  (anything else is exactly what the property forbids)
        if isinstance(e, (KeyboardInterrupt, SystemExit)):
            raise
        return type(e).__name__, e
    return ('ok' if isinstance(r, sv.SoupSieve) else 'wrong-return-type:' + type(r).__name__), None


def norm_custom_name(sv, key):
    """CSS-unescape + ASCII lower (independent mini implementation for the KeyError oracle)."""
    from ..ref import ident
    k = ''.join(chr(ord(c) + 32) if 'A' <= c <= 'Z' else c for c in key)
    if k.startswith(':'):
        r = ident.consume_ident(k, 1)
        if r is not None and r[1] == len(k.replace('\x00', '�')):
            return ':' + ''.join(chr(ord(c) + 32) if 'A' <= c <= 'Z' else c for c in r[0])
    return k


def verdict(cls, pattern, custom=None, sv=None):
    """None if the outcome class is allowed for this input, else a reason."""
    if cls in ('ok', 'SelectorSyntaxError'):
        return None
    if cls == 'NotImplementedError':
        reach = pattern + ''.join(custom.values() if custom else '')
        if '@' in reach or '::' in reach:
            return None
        return 'NotImplementedError without an at-rule or pseudo-element in the pattern'
    if cls == 'KeyError' and custom:
        names = [norm_custom_name(sv, k) for k in custom]
        low = [''.join(chr(ord(c) + 32) if 'A' <= c <= 'Z' else c for c in k) for k in custom]
        if len(set(names)) < len(names) or len(set(low)) < len(low):
            return None
        return 'KeyError although no two custom names coincide'
    return f'{cls} escaped from compile()'


def features(lexemes):
    f = set()
    for x in lexemes:
        if x == BIG:
            f.add('huge-number')
        elif x.startswith('\\'):
            f.add('escape:' + x[1:].replace('\n', 'NL')[:6])
        elif x in ('\x00',):
            f.add('NUL')
        elif not x.isascii():
            f.add('non-ascii:U+%04X' % ord(x[0]))
        elif any(ord(c) < 0x20 and c not in '\t\n\r\f' or ord(c) == 0x7f for c in x):
            f.add('control-char')
        elif x.strip() in (':not(', ':is(', ':has(', ':nth-child(', ':nth-of-type(', ':lang(', ':dir(', ':-soup-contains(', ':contains(', '@page', '::', ':--x'):
            f.add(x.strip())
        elif x in ('[', '"', "'", '(', '/*'):
            f.add('open:' + x)
    return '+'.join(sorted(f))


def run_words(sv, res, alpha, k, prefix):
    n = 0
    for w in words(alpha, k, prefix):
        lex = [alpha[i] for i in w]
        pattern = ''.join(lex)
        n += 1
        if n % 400 == 0:
            sv.purge()
        cls, exc = classify(sv, pattern)
        res.evaluations += 1
        res.outcome(cls)
        if cls == 'ok':
            res.nontrivial += 1
        why = verdict(cls, pattern)
        if why:
            def still(ls, cls=cls):
                return classify(sv, ''.join(ls))[0] == cls and verdict(cls, ''.join(ls)) is not None
            small = shard.shrink_seq(lex, still) if len(lex) > 1 else lex
            p2 = ''.join(small)
            res.fail({'layer': 'pattern', 'lexemes': [x if x != BIG else '<BIG>' for x in small]},
                     {'exc': cls, 'where': 'pattern', 'features': features(small)},
                     f'compile({p2[:80]!r}{"..." if len(p2) > 80 else ""}): {why}: {str(exc)[:120]}')
        elif n % 5003 == 1:
            res.sample({'pattern': pattern[:60], 'outcome': cls})


KEYS = [':--a', ':--A', ':--b', '--a', ':--a b', ':--\\61 ', ':--', '', ':--é', ':a', ':--a\\', ':--\\41']
VALUES = ['p', ':--b', ':--a', ':--A', 'p:--B', ':not(:--b)', ':--\\41', ':not(:--\\41)', 'p:', '', '\\110000', ':is(', ':--undefined', 'a, b', '@x', 'p::before']
USES = [':--a', ':--A', ':--b', 'p:--a', ':--\\41', ':not(:--a)', 'p', ':--B', ':--\\62', 'div :--A:--b']


def custom_maps():
    yield ()                      # the empty map is a map too
    singles = [((k, v),) for k in KEYS for v in VALUES]
    yield from singles
    for (k1, v1), (k2, v2) in itertools.product([(k, v) for k in KEYS[:8] + KEYS[11:] for v in VALUES[:9] + VALUES[10:11]], repeat=2):
        if k1 != k2:
            yield ((k1, v1), (k2, v2))


def run_custom(sv, res, i, n):
    for mi, items in enumerate(custom_maps()):
        if mi % n != i:
            continue
        custom = dict(items)
        for use in USES:
            sv.purge()
            if not custom:
                # argument shapes around "no entries": {} for custom and for namespaces, together and alone
                for kw in ({'custom': {}}, {'namespaces': {}}, {'namespaces': {}, 'custom': {}}, {'namespaces': None, 'custom': None}, {'flags': 0, 'custom': {}}):
                    try:
                        r = sv.compile(use, **kw)
                        c2 = 'ok' if isinstance(r, sv.SoupSieve) else 'wrong-return-type'
                    except sv.SelectorSyntaxError:
                        c2 = 'SelectorSyntaxError'
                    except Exception as e:
                        c2 = type(e).__name__
                    res.evaluations += 1
                    res.outcome('custom:' + c2)
                    if c2 not in ('ok', 'SelectorSyntaxError'):
                        res.fail({'layer': 'emptymaps', 'pattern': use, 'kw': sorted(kw)}, {'exc': c2, 'where': 'empty-map-arguments'},
                                 f'compile({use!r}, **{kw!r}) raised {c2}')
            cls, exc = classify(sv, use, custom)
            res.evaluations += 1
            res.outcome('custom:' + cls)
            if cls == 'ok':
                res.nontrivial += 1
            why = verdict(cls, use, custom, sv)
            if why:
                cyc = any(v in (':--a', ':--A', ':--\\41', ':not(:--\\41)', 'p:--B', ':--b', ':not(:--b)') for v in custom.values())
                res.fail({'layer': 'custom', 'custom': items, 'pattern': use},
                         {'exc': cls, 'where': 'custom', 'features': ('cyclic-or-chained' if cyc else 'plain') + (
                             '+bad-escape' if any('110000' in v for v in custom.values()) else '')},
                         f'compile({use!r}, custom={custom!r}): {why}: {str(exc)[:120]}')


def run_shard(desc):
    from .. import common
    sv = common.bind()
    warnings.simplefilter('ignore')
    res = shard.Result()
    kind = desc[0]
    if kind == 'custom':
        run_custom(sv, res, desc[1], desc[2])
    else:
        alpha = {'sigma': SIGMA, 'core': CORE, 'core2': CORE2}[kind]
        run_words(sv, res, alpha, desc[1], tuple(desc[2]))
    return res


def replay(case):
    from .. import common
    sv = common.bind()
    warnings.simplefilter('ignore')
    if case['layer'] == 'emptymaps':
        kw = {k: ({} if k != 'flags' else 0) for k in case['kw']}
        if case['kw'] == ['custom', 'namespaces'] and False:
            pass
        try:
            sv.compile(case['pattern'], **kw)
            return None
        except sv.SelectorSyntaxError:
            return None
        except Exception as e:
            return {'exc': type(e).__name__, 'where': 'empty-map-arguments'}, repr(e)
    if case['layer'] == 'custom':
        custom = dict(tuple(x) for x in case['custom'])
        cls, exc = classify(sv, case['pattern'], custom)
        why = verdict(cls, case['pattern'], custom, sv)
        return ({'exc': cls, 'where': 'custom'}, f'{why}: {exc!r}') if why else None
    pattern = ''.join(BIG if x == '<BIG>' else x for x in case['lexemes'])
    cls, exc = classify(sv, pattern)
    why = verdict(cls, pattern)
    return ({'exc': cls, 'where': 'pattern'}, f'{why}: {exc!r}') if why else None


def check(tier, seed):
    res, info = shard.run(__name__, shards(tier, seed), order_seed=seed)
    cov = {
        'rule': ('every word of <= k lexemes over the alphabets is compiled (each word once; the empty word excluded); every custom map of '
                 '<= 2 entries x using pattern is compiled; non-trivial = the input compiles successfully (a valid selector); the '
                 'outcome class of every input is checked'),
        'exhaustive': not info['cap_hit'],
        'alphabet_sizes': {'sigma': len(SIGMA), 'core': len(CORE), 'core2': len(CORE2)},
        'max_lexemes': {'sigma': 3 if tier == 'quick' else 4, 'core': 4 if tier == 'quick' else 6, 'core2': 5 if tier == 'quick' else 6},
        'custom_keys': KEYS, 'custom_values': VALUES, 'custom_patterns': USES,
    }
    return {'result': res, 'coverage': cov, 'info': info,
            'assumptions': ['nesting depth stays far below the recursion budget (<= 6 lexemes)', 'warnings are ignored, not raised',
                            'KeyError is accepted when two custom names coincide after unescaping and ASCII lower-casing']}
