"""Reference: CSS Syntax Level 3 'consume an ident sequence' (4.3.11) and CSSOM 'serialize an identifier'.

Independent of soupsieve (no import of it).  Deviation from CSS Syntax 3.3 made on purpose: only NUL is replaced by
U+FFFD during preprocessing (property C10 says surrogates written literally stay themselves).
"""
from __future__ import annotations

HEX = set('0123456789abcdefABCDEF')
WS = set(' \t\n\r\f')


def is_ident_start(c: str) -> bool:
    return c.isascii() and (c.isalpha() or c == '_') or ord(c) >= 0x80


def is_ident(c: str) -> bool:
    return is_ident_start(c) or (c.isascii() and c.isdigit()) or c == '-'


def valid_escape(t: str, i: int) -> bool:
    """Two code points at i are a valid escape: backslash not followed by a newline (EOF after '\\' is handled by caller)."""
    return i < len(t) and t[i] == '\\' and i + 1 < len(t) and t[i + 1] not in '\n\r\f'


def would_start_ident(t: str, i: int) -> bool:
    if i >= len(t):
        return False
    c = t[i]
    if c == '-':
        if i + 1 < len(t) and (is_ident_start(t[i + 1]) or t[i + 1] == '-'):
            return True
        return valid_escape(t, i + 1)
    if is_ident_start(c):
        return True
    if c == '\\':
        return valid_escape(t, i)
    return False


def consume_escape(t: str, i: int):
    """t[i-1] was the backslash; returns (char, new_i)."""
    if i >= len(t):
        return '�', i
    c = t[i]
    if c in HEX:
        j = i
        while j < len(t) and j - i < 6 and t[j] in HEX:
            j += 1
        cp = int(t[i:j], 16)
        if j < len(t) and t[j] in WS:
            if t[j] == '\r' and j + 1 < len(t) and t[j + 1] == '\n':
                j += 1
            j += 1
        if cp == 0 or 0xD800 <= cp <= 0xDFFF or cp > 0x10FFFF:
            return '�', j
        return chr(cp), j
    return c, i + 1


def consume_ident(text: str, i: int = 0):
    """Return (value, end) of the identifier starting at i, or None if no identifier starts there."""
    t = text.replace('\x00', '�')
    if not would_start_ident(t, i):
        return None
    out = []
    while i < len(t):
        c = t[i]
        if is_ident(c):
            out.append(c)
            i += 1
        elif valid_escape(t, i):
            ch, i = consume_escape(t, i + 1)
            out.append(ch)
        else:
            break
    return ''.join(out), i


def serialize_ident(s: str) -> str:
    """CSSOM serialize an identifier (what CSS.escape does)."""
    out = []
    n = len(s)
    for i, c in enumerate(s):
        o = ord(c)
        if o == 0:
            out.append('�')
        elif 1 <= o <= 0x1f or o == 0x7f:
            out.append('\\%x ' % o)
        elif i == 0 and 0x30 <= o <= 0x39:
            out.append('\\%x ' % o)
        elif i == 1 and 0x30 <= o <= 0x39 and s[0] == '-':
            out.append('\\%x ' % o)
        elif i == 0 and n == 1 and c == '-':
            out.append('\\-')
        elif o >= 0x80 or c == '-' or c == '_' or (c.isascii() and c.isalnum()):
            out.append(c)
        else:
            out.append('\\' + c)
    return ''.join(out)
