#!/bin/bash
# confirm every seeded change (tests green, demo red/green) and run the check of the property it targets
cd /verif
mkdir -p /tmp/seedresults
for d in seeded/C*-*; do
  id=$(basename $d); prop=${id%%-*}
  if [ -n "$1" ] && [[ "$id" != $1* ]]; then continue; fi
  tools/seedrun.py $d $prop > /tmp/seedresults/$id.json 2>&1
  echo "$id $(grep -m1 '"exit"' /tmp/seedresults/$id.json) $(grep -m1 '"tests"' /tmp/seedresults/$id.json)"
done
