"""C01 — select() returns exactly the elements CSS semantics designate.

Bounded-exhaustive differential exploration: every tree of a finitely generated space x every selector of a
weight-bounded grammar is run through soupsieve.select and through the three-valued reference matcher
(vf/ref/css.py); result lists must be identical (same objects, same order).  Three layers:
  S structure   all forests <= n elements over {a,b} x interleavings of text/comment/CDATA/PI/nbsp nodes
                x all chains of <= 2 (thorough 3) compounds over type + structural pseudo-classes
  F functional  :not/:is/:where/:matches(list), :has(relative list), nesting depth 2, empty :is()/:where()
  A attributes  attribute/id/class menus on 1-2 element trees x 7 operators x {none,i,s} x value menu
each on API-built html.parser and xml soups; layer P re-materialises the trees through html.parser, lxml,
html5lib and lxml-xml (the reference reads whatever tree the parser built).
"""
from __future__ import annotations
import itertools
from ..engine import shard
from ..gen import trees as T, selectors as S
from ..ref import css as R
from . import _sel

ID = 'C01'
LEVEL = 'exploration'

PSEUDOS = ('root', 'empty', 'first-child', 'last-child', 'only-child', 'first-of-type', 'last-of-type', 'only-of-type')
T_VALUES = (None, '', 'v', 'V', 'v w', 'w-v', 'v-', 'v\n', ' v', 'xvx', 'v.x', '.', 'x\nv', 'v\nx', 'x\rv-w\n\nv', 'v\xa0w', 'w\x0bv', 'v\tw', "'v'", '"v', 'v"')
SEL_VALUES_Q = ('', 'v', 'V', 'w', 'v w', '-', 'v-', 'x', '.', 'v\xa0w', "'v'", '"', 'v"')
OPS = ('=', '~=', '|=', '^=', '$=', '*=', '!=')
_CACHE = {}


# ------------------------------------------------------------------ trees
def labelled_forests(max_n, labels=('a', 'b')):
    out = []
    for n in range(1, max_n + 1):
        for shape in T.forests(n):
            for lab in T.label(shape, labels):
                out.append(T.to_spec(lab))
    return out


def structure_trees(tier):
    key = ('S', tier)
    if key in _CACHE:
        return _CACHE[key]
    out = []
    max_n = 3 if tier == 'quick' else 4
    kinds = ('ws', 'text', 'comment', 'cdata', 'nbsp') if tier == 'quick' else ('ws', 'text', 'comment', 'cdata', 'pi', 'nbsp', 'vt')
    T.FILL.setdefault('nbsp', ('t', '\xa0'))
    T.FILL.setdefault('vt', ('t', '\x0b'))
    for f in labelled_forests(max_n):
        n = sum(1 for _ in _walk(f))
        single = n <= 2
        for name, g in T.interleavings(f, kinds=kinds, single=single):
            out.append((name, g))
    if tier != 'quick':
        # n = 5, bare and comment-interleaved only
        for shape in T.forests(5):
            for lab in T.label(shape, ('a', 'b')):
                f = T.to_spec(lab)
                out.append(('none', f))
    _CACHE[key] = out
    return out


def _walk(forest):
    for n in forest:
        if n[0] == 'e':
            yield n
            yield from _walk(n[3])


def functional_trees(tier):
    key = ('F', tier)
    if key in _CACHE:
        return _CACHE[key]
    out = []
    for f in labelled_forests(3 if tier == 'quick' else 4):
        out.append(('none', f))
        out.append(('comment-all', T.fill_gaps(f, lambda i, top: ('c', 'k'))))
        # the same shape with its first child-bearing element renamed to iframe: for combinators, :has() and the structural pseudo-classes an
        # iframe with element children (html.parser, API-built trees) is an ordinary parent
        g = _rename_first_parent(f, 'iframe')
        if g is not None:
            out.append(('iframe-parent', g))
    _CACHE[key] = out
    return out


def _rename_first_parent(forest, name):
    done = [False]

    def rec(nodes):
        res = []
        for n in nodes:
            if n[0] == 'e' and not done[0] and any(k[0] == 'e' for k in n[3]):
                done[0] = True
                res.append((n[0], name, n[2], n[3]) + tuple(n[4:]))
            elif n[0] == 'e':
                res.append((n[0], n[1], n[2], rec(n[3])) + tuple(n[4:]))
            else:
                res.append(n)
        return tuple(res)
    out = rec(forest)
    return out if done[0] else None


def attr_trees(tier):
    key = ('A', tier)
    if key in _CACHE:
        return _CACHE[key]
    out = []
    ids = (None, 'i')
    classes = (None, 'c', ['c', 'd'], 'c  d', 'C', 'dc cd')     # the last: tokens that merely contain the names selected for

    def attrs(t, i, c):
        a = []
        if t is not None:
            a.append(('t', t))
        if i is not None:
            a.append(('id', i))
        if c is not None:
            a.append(('class', tuple(c) if isinstance(c, list) else c))
        return tuple(a)
    for t, i, c in itertools.product(T_VALUES, ids, classes):
        out.append(('single', (('e', 'a', attrs(t, i, c), ()),)))
    for t in T_VALUES:
        if t is not None:
            out.append(('type-attr', (('e', 'r', (), (('e', 'a', (('type', t),), ()), ('e', 'b', (('type', t.upper() if t else t), ('t', t)), ()))),)))
    # attribute and tag names stored in another case than the selector's (API-built trees and html5lib's adjusted foreign attributes)
    for t in ('v', 'V', 'v w', ''):
        out.append(('stored-case', (('e', 'r', (), (('e', 'a', (('T', t),), ()), ('e', 'A', (('t', t), ('ID', 'i'), ('Class', 'c')), ()), ('e', 'b', (('tT', t),), ()))),)))
    pair_values = T_VALUES if tier != 'quick' else (None, '', 'v', 'V', 'v w', 'w-v', 'x\nv', "'v'")
    for t1, t2 in itertools.product(pair_values, repeat=2):
        out.append(('nested', (('e', 'a', attrs(t1, None, None), (('e', 'b', attrs(t2, 'i', 'c'), ()),)),)))
        out.append(('siblings', (('e', 'r', (), (('e', 'a', attrs(t1, None, 'c'), ()), ('e', 'b', attrs(t2, None, None), ()))),)))
    _CACHE[key] = out
    return out


# ------------------------------------------------------------------ selectors
def structure_selectors(tier):
    key = ('Ssel', tier)
    if key in _CACHE:
        return _CACHE[key]
    types = (S.T('a'), S.T('b'), S.T('*'))
    atoms = tuple(('pc', p) for p in PSEUDOS)
    if tier == 'quick':
        c1 = [S.cp(t) for t in types] + [S.cp(t, a) for t in (None, S.T('a')) for a in atoms]
    else:
        c1 = [S.cp(t) for t in types] + [S.cp(t, a) for t in (None,) + types for a in atoms]
        c1 += [S.cp(None, a, b) for a, b in itertools.combinations(atoms, 2)]
    out = [(x,) for x in S.complexes(c1, 2)]
    # comma lists of two simple alternatives
    small = [S.cp(S.T('a')), S.cp(S.T('b')), S.cp(None, ('pc', 'first-child')), S.cp(None, ('pc', 'empty')),
             S.cp(None, ('pc', 'root')), S.cp(None, ('pc', 'last-of-type'))]
    for a, b in itertools.product(small, repeat=2):
        out.append((S.cx(a), S.cx(b)))
    for a, b, c in itertools.product(small[:4], repeat=3):
        for k in S.COMBS:
            out.append((S.cx(a, k, b), S.cx(c)))
    # three-compound chains with mixed combinators
    c3 = [S.cp(S.T('a')), S.cp(S.T('b')), S.cp(None, ('pc', 'first-child'))]
    if tier != 'quick':
        c3 += [S.cp(None, ('pc', 'last-child')), S.cp(S.T('*')), S.cp(None, ('pc', 'empty')), S.cp(None, ('pc', 'only-of-type')), S.cp(None, ('pc', 'root'))]
    for a, b, c in itertools.product(c3, repeat=3):
        for k1, k2 in itertools.product(S.COMBS, repeat=2):
            out.append((S.cx(a, k1, b, k2, c),))
    _CACHE[key] = out
    return out


def functional_selectors(tier):
    key = ('Fsel', tier)
    if key in _CACHE:
        return _CACHE[key]
    pool = [S.cp(S.T('a')), S.cp(S.T('b')), S.cp(None, ('pc', 'first-child')), S.cp(None, ('pc', 'last-child')),
            S.cp(None, ('pc', 'empty'))]
    if tier != 'quick':
        pool += [S.cp(S.T('*')), S.cp(None, ('pc', 'only-child')), S.cp(None, ('pc', 'root'))]
    cxs = S.complexes(pool, 2)
    singles = [S.cx(c) for c in pool]
    lists = [(x,) for x in cxs] + [(x, y) for x in singles for y in singles if x != y]
    lists += [(x, y) for x in cxs[len(pool):len(pool) + 40] for y in singles[:2]]
    # the same complex selectors in LAST and in MIDDLE position of the list, and two complex selectors side by side: what the parser
    # holds when the closing parenthesis arrives (a pending left-hand chain) differs from what it holds at a comma
    nrev = 24 if tier == 'quick' else 40
    lists += [(y, x) for x in cxs[len(pool):len(pool) + nrev] for y in singles[:2]]
    lists += [(singles[1], x, singles[0]) for x in cxs[len(pool):len(pool) + nrev:2]]
    lists += [(x, y) for x, y in zip(cxs[len(pool):len(pool) + nrev], cxs[len(pool) + 7:len(pool) + 7 + nrev])]
    out = []
    anchors = [None, S.T('a'), S.T('*')]
    for fn in ('not', 'is', 'where', 'matches'):
        for L in lists:
            for t in anchors:
                out.append((S.cx(S.cp(t, ('fn', fn, L))),))
            out.append((S.cx(S.cp(S.T('b')), '>', S.cp(None, ('fn', fn, L))),))
            out.append((S.cx(S.cp(None, ('fn', fn, L)), '~', S.cp(S.T('b'))),))
            out.append((S.cx(S.cp(None, ('fn', fn, L)), ' ', S.cp(S.T('a'))),))
        if fn in ('is', 'where'):
            out.append((S.cx(S.cp(None, ('fn', fn, ()))),))
            out.append((S.cx(S.cp(S.T('a'), ('fn', fn, ()))),))
            out.append((S.cx(S.cp(None, ('fn', 'not', (S.cx(S.cp(None, ('fn', fn, ()))),)))),))
    # :has()
    rels = [((k, x),) for k in S.COMBS for x in cxs]
    rels += [((k1, x), (k2, y)) for k1 in S.COMBS for k2 in S.COMBS for x in singles[:4] for y in singles[:4]]
    if tier != 'quick':
        rels += [((k1, x), (k2, y)) for k1 in S.COMBS for k2 in S.COMBS for x in cxs[len(pool):len(pool) + 30] for y in singles[:3]]
    for r in rels:
        h = ('has', r)
        for t in anchors:
            out.append((S.cx(S.cp(t, h)),))
        out.append((S.cx(S.cp(None, ('fn', 'not', (S.cx(S.cp(None, h)),)))),))
        out.append((S.cx(S.cp(None, h), '>', S.cp(S.T('a'))),))
        out.append((S.cx(S.cp(S.T('b')), '+', S.cp(None, h)),))
    # depth 2
    inner = [('fn', f, (x,)) for f in ('not', 'is') for x in singles] + [('has', ((k, x),)) for k in S.COMBS for x in singles[:3]]
    for s in inner:
        c = S.cp(None, s)
        for f in ('not', 'is', 'where'):
            out.append((S.cx(S.cp(None, ('fn', f, (S.cx(c),)))),))
            out.append((S.cx(S.cp(None, ('fn', f, (S.cx(c), S.cx(S.cp(S.T('b'))))))),))
            out.append((S.cx(S.cp(None, ('fn', f, (S.cx(c, '>', S.cp(S.T('a'))),)))),))
            out.append((S.cx(S.cp(None, ('fn', f, (S.cx(S.cp(S.T('a')), ' ', c),)))),))
        for k in S.COMBS:
            out.append((S.cx(S.cp(None, ('has', ((k, S.cx(c)),)))),))
            out.append((S.cx(S.cp(None, ('has', ((k, S.cx(c, '+', S.cp(S.T('b')))),)))),))
    _CACHE[key] = out
    return out


def attr_selectors(tier):
    key = ('Asel', tier)
    if key in _CACHE:
        return _CACHE[key]
    out = []
    vals = SEL_VALUES_Q if tier == 'quick' else SEL_VALUES_Q + ('v\n', ' v', 'v.x', 'V W', 'w-v')
    A = [('attr', None, 't', None, None, None)]
    for op in OPS:
        for v in vals:
            for flag in (None, 'i', 's'):
                A.append(('attr', None, 't', op, v, flag))
    for a in A:
        out.append((S.cx(S.cp(None, a)),))
    for a in A[::1 if tier != 'quick' else 3]:
        out.append((S.cx(S.cp(S.T('a'), a)),))
        out.append((S.cx(S.cp(None, ('fn', 'not', (S.cx(S.cp(None, a)),)))),))
        out.append((S.cx(S.cp(None, a), '>', S.cp(S.T('b'))),))
        out.append((S.cx(S.cp(None, a), '+', S.cp(None, ('attr', None, 't', None, None, None))),))
    for s in (('id', 'i'), ('id', 'I'), ('class', 'c'), ('class', 'd'), ('class', 'C'), ('id', 'j')):
        out.append((S.cx(S.cp(None, s)),))
        out.append((S.cx(S.cp(S.T('b'), s)),))
        out.append((S.cx(S.cp(None, s, ('attr', None, 't', '=', 'v', None))),))
    out.append((S.cx(S.cp(None, ('id', 'i'), ('class', 'c'))),))
    out.append((S.cx(S.cp(None, ('class', 'c'), ('class', 'd'))),))
    out.append((S.cx(S.cp(None, ('attr', None, 'class', '~=', 'd', None))),))
    out.append((S.cx(S.cp(None, ('attr', None, 'class', '=', 'c d', None))),))
    out.append((S.cx(S.cp(None, ('attr', None, 'id', '=', 'i', None))),))
    for op in OPS:
        for v in ('v', 'x', 'v w'):
            for flag in (None, 'i', 's') if tier != 'quick' else (None, 'i'):
                out.append((S.cx(S.cp(None, ('attr', None, 'type', op, v, flag))),))
    # names spelled in another case: HTML folds them, XML and XHTML do not
    for nm in ('T', 'ID', 'Class'):
        out.append((S.cx(S.cp(None, ('attr', None, nm, None, None, None))),))
    out.append((S.cx(S.cp(None, ('attr', None, 'T', '=', 'v', None))),))
    out.append((S.cx(S.cp(None, ('attr', None, 'T', '~=', 'v', 'i'))),))
    out.append((S.cx(S.cp(S.T('A'), ('attr', None, 't', None, None, None))),))
    out.append((S.cx(S.cp(S.T('B'))),))
    _CACHE[key] = out
    return out


def deep_trees(tier):
    """Layer D: trees deep enough for chains of four compounds (the other layers stop at three elements in quick): every chain of 4 and 5 nested
    elements over {a,b}, and chains whose levels carry an extra sibling before / after the spine."""
    out = []

    def chain(labels, sib=None):
        node = ()
        for depth, lab in enumerate(reversed(labels)):
            kids = node
            if sib == 'before' and node:
                kids = (('e', 'b', (), ()),) + node
            elif sib == 'after' and node:
                kids = node + (('e', 'a', (), ()),)
            elif sib == 'both' and node:
                kids = (('e', 'a', (), ()),) + node + (('e', 'b', (), ()),)
            node = (('e', lab, (), kids),)
        return node
    for n_ in (4, 5):
        for labels in itertools.product('ab', repeat=n_):
            out.append(('chain', chain(labels)))
            if n_ == 4:
                for sib in ('before', 'after', 'both'):
                    out.append(('chain+' + sib, chain(labels, sib)))
    return out


def deep_selectors(tier):
    out = []
    pats = [('a', 'b', 'a', 'b'), ('*', '*', '*', '*'), ('b', 'a', 'a', 'b'), ('a', 'a', 'b', 'b')]
    if tier != 'quick':
        pats += [tuple(x) for x in itertools.product('ab', repeat=4) if tuple(x) not in pats]
    for k1, k2, k3 in itertools.product(S.COMBS, repeat=3):
        for L in pats:
            c = [S.cp(S.T(x)) for x in L]
            out.append((S.cx(c[0], k1, c[1], k2, c[2], k3, c[3]),))
            rel = ('has', ((k1, S.cx(c[1], k2, c[2], k3, c[3])),))
            out.append((S.cx(S.cp(S.T(L[0]), rel)),))
            out.append((S.cx(S.cp(None, ('fn', 'not', (S.cx(S.cp(None, rel)),)))),))
            out.append((S.cx(S.cp(None, ('fn', 'is', (S.cx(c[0], k1, c[1], k2, c[2]),))), k3, c[3]),))
    return out


LAYERS = {
    'S': (structure_trees, structure_selectors, ('api-html', 'api-xml', 'api-detached')),
    'F': (functional_trees, functional_selectors, ('api-html', 'api-xml', 'api-detached')),
    'A': (attr_trees, attr_selectors, ('api-html', 'api-xml', 'api-xhtml', 'api-html5')),
    'D': (deep_trees, deep_selectors, ('api-html', 'api-detached')),
    'PS': (lambda tier: [t for t in structure_trees('quick') if '@' not in t[0]][::1 if tier != 'quick' else 2],
           lambda tier: structure_selectors('quick')[::7 if tier == 'quick' else 2],
           ('html.parser', 'lxml', 'html5lib', 'xml')),
    'PA': (lambda tier: attr_trees('quick'), lambda tier: attr_selectors('quick'),
           ('html.parser', 'lxml', 'html5lib', 'xml')),
}


def shards(tier, seed):
    out = []
    per = {'S': 64, 'F': 32, 'A': 8, 'PS': 16, 'PA': 8, 'N': 8, 'D': 8} if tier == 'quick' else {'S': 256, 'F': 128, 'A': 16, 'PS': 48, 'PA': 16, 'N': 16, 'D': 16}
    for layer, n in per.items():
        for i in range(n):
            out.append((layer, tier, i, n))
    return out


def tree_features(forest):
    f = set()

    def rec(nodes):
        for n in nodes:
            if n[0] == 'e':
                for k, v in n[2]:
                    if isinstance(v, (list, tuple)):
                        f.add('attr-list')
                    elif v == '':
                        f.add('attr-empty')
                    elif isinstance(v, str):
                        if v.endswith('\n'):
                            f.add('attr-trailing-newline')
                        if ' ' in v:
                            f.add('attr-space')
                rec(n[3])
            elif n[0] == 't':
                s = n[1]
                f.add('text-cssws' if s.strip(' \t\n\r\f') == '' else ('text-otherws' if s.strip() == '' else 'text'))
            else:
                f.add({'c': 'comment', 'cd': 'cdata', 'pi': 'pi', 'dt': 'doctype', 'decl': 'decl'}[n[0]])
    rec(forest)
    return f


_DOCS = {}


def docs_for(layer, tier):
    """Build (once per worker) every document of a layer: list of (name, forest, kind, soup, ctx, elements)."""
    key = (layer, tier)
    if key in _DOCS:
        return _DOCS[key]
    trees_fn, _, kinds = LAYERS[layer]
    out = []
    seen = set()
    skipped = 0
    for ti, (name, forest) in enumerate(trees_fn(tier)):
        for kind in kinds:
            if kind == 'api-xml' and layer in ('S', 'F') and ti % 3:
                continue        # structure does not depend on the document type: XML twin for every third tree
            if kind == 'api-detached' and (len(forest) != 1 or forest[0][0] != 'e' or not forest[0][3]):
                continue        # detached twin (call target = the root element, nothing above it) for every single-rooted tree with children
            try:
                soup = _sel.build(forest, kind)
            except Exception:
                skipped += 1
                continue
            if kind not in ('api-html', 'api-xml', 'api-detached'):
                fp = (kind, T.fingerprint(soup))
                if fp in seen:
                    continue
                seen.add(fp)
            out.append((name, forest, kind, soup, R.Ctx(soup), T.elements(soup)))
    _DOCS[key] = (out, skipped)
    return _DOCS[key]


def record_failure(res, sv, layer, forest, kind, lst, tindex, r):
    """Shrink (selector first, then tree) and file the witness."""
    want_status = r['status']

    def fails(f, l, ti=tindex):
        try:
            soup = _sel.build(f, kind)
            els = T.elements(soup)
            target = soup if ti < 0 else (els[ti] if ti < len(els) else None)
            if target is None:
                return None
            rr = _sel.run_case(sv, target, l)
        except Exception:
            return None
        if rr['status'] == want_status and (want_status != 'mismatch' or rr['direction'] == r['direction']):
            return rr
        return None
    l2 = _sel.shrink_list(lst, lambda l: fails(forest, l) is not None)
    f2 = forest
    if kind in ('api-html', 'api-xml') and tindex < 0:
        f2 = _sel.shrink_forest(forest, lambda f: len(f) > 0 and fails(f, l2) is not None)
    rr = fails(f2, l2) or r
    sig = {'kind': rr['status'], 'direction': rr.get('direction', rr.get('exc', '')),
           'atoms': '+'.join(sorted(_sel.atoms_of(l2))), 'tree': '+'.join(sorted(tree_features(f2))),
           'doc': 'xml' if kind in ('api-xml', 'xml') else ('xhtml' if kind == 'api-xhtml' else 'html-ns' if kind == 'api-html5' else 'detached' if kind == 'api-detached' else 'html')}
    res.fail({'layer': layer, 'forest': f2, 'kind': kind, 'selector': l2, 'target': tindex, 'text': S.render(l2)},
             sig, rr.get('detail', ''))


def ns_selectors(tier):
    """Functional pseudo-classes with lists of tag-less items under an outer compound that is not tied to the default namespace, over the
    alphabet of the mixed-namespace documents of C12 (elements e/f, class c, attribute k)."""
    cls, hk, zz = S.cx(S.cp(None, ('class', 'c'))), S.cx(S.cp(None, ('attr', None, 'k', None, None, None))), S.cx(S.cp(None, ('class', 'zz')))
    te = S.cx(S.cp(S.T('e')))
    out = []
    lists = [L for n_ in (2, 3) for L in itertools.permutations((cls, hk, zz, te), n_)]
    for outer in (('*', '*'), ('x', '*'), ('*', 'e'), (None, 'e'), None):
        for L in lists:
            for fn in ('is', 'not', 'where'):
                out.append((S.cx(S.cp(outer, ('fn', fn, L))),))
            out.append((S.cx(S.cp(outer, ('has', tuple(('>', x) for x in L)))),))
            out.append((S.cx(S.cp(outer, ('fn', 'not', (S.cx(S.cp(None, ('fn', 'is', L))),)))),))
    for L in lists:
        out.append(L)
    return out if tier != 'quick' else out[::2]


def run_ns(sv, tier, i, n):
    """Layer N: the same question with a namespaces= map that declares a default namespace, on documents whose elements are spread over
    several namespaces (an item of a nested list carries no implied default-namespace universal; a top-level item does)."""
    from . import c12
    res = shard.Result()
    docs = c12.built('quick')
    sels = ns_selectors(tier)
    maps = {k: c12.MAPS[k] for k in ('default-U1', 'default-U1+x->U2', 'x->U1')}
    if i == 0:
        res.count('documents_N', len(docs))
        res.count('selectors_N', len(sels))
    for si in range(i, len(sels), n):
        lst = sels[si]
        text = S.render(lst)
        fails = 0
        for name, src, soup in docs:
            for mname, m in maps.items():
                r = _sel.run_case(sv, soup, lst, namespaces=m, text=text)
                res.evaluations += 1
                st = r['status']
                if st == 'ok':
                    res.outcome('agree')
                    if 0 < len(r['want']) < len(T.elements(soup)):
                        res.nontrivial += 1
                elif st == 'unspecified':
                    res.unspecified += 1
                else:
                    res.outcome(st)
                    fails += 1
                    if fails <= 2:
                        res.fail({'layer': 'N', 'src': src, 'map': mname, 'h5': False, 'selector': lst, 'text': text},
                                 {'kind': st, 'direction': r.get('direction', r.get('exc', '')), 'atoms': '+'.join(sorted(_sel.atoms_of(lst))), 'tree': 'mixed-namespaces',
                                  'doc': 'xml', 'map': mname}, f'[{name}, namespaces={m!r}] ' + r.get('detail', ''))
                    else:
                        res.failure_count += 1
    return res


def run_shard(desc):
    from .. import common
    sv = common.bind()
    layer, tier, i, n = desc
    if layer == 'N':
        return run_ns(sv, tier, i, n)
    res = shard.Result()
    docs, skipped = docs_for(layer, tier)
    res.count('documents_' + layer, len(docs) if i == 0 else 0)
    res.count('parser_rejected_markup', skipped if i == 0 else 0)
    sels = LAYERS[layer][1](tier)
    res.count('selectors_' + layer, len(sels) if i == 0 else 0)
    per_element_targets = layer in ('S', 'F')
    for si in range(i, len(sels), n):
        lst = sels[si]
        text = S.render(lst)
        sv.purge()
        failed_here = 0
        for di, (name, forest, kind, soup, ctx, els) in enumerate(docs):
            targets = [(-1, soup)]
            if per_element_targets and len(els) <= (2 if tier == 'quick' else 3):
                targets += [(k, e) for k, e in enumerate(els) if e.contents]
            for tindex, target in targets:
                r = _sel.run_case(sv, target, lst, ctx=ctx if tindex < 0 else None, text=text)
                res.evaluations += 1
                st = r['status']
                if st == 'ok' and layer in ('A', 'PA') and tindex < 0:
                    # metamorphic: a prefix map the selector never uses (and DEBUG) must not change the answer
                    try:
                        g2 = sv.select(text, soup, namespaces={'zz': 'urn:never-used'})
                        same = len(g2) == len(r['got']) and all(x is y for x, y in zip(g2, r['got']))
                    except Exception as e:
                        same, g2 = False, repr(e)
                    res.evaluations += 1
                    if not same:
                        st = 'mismatch'
                        r = dict(r, status='mismatch', direction='changed-by-unused-namespace-map',
                                 detail=f'select({text!r}) = {[_sel.brief(x) for x in r["got"]]} but with namespaces={{"zz": ...}} (prefix never used) it is {g2 if isinstance(g2, str) else [_sel.brief(x) for x in g2]}')
                if st == 'ok':
                    if tindex < 0:
                        nw = len(r['want'])
                        if 0 < nw < len(els):
                            res.nontrivial += 1
                    res.outcome('agree')
                elif st == 'unspecified':
                    res.unspecified += 1
                    res.outcome('unspecified')
                else:
                    res.outcome(st)
                    failed_here += 1
                    if failed_here <= 3:
                        record_failure(res, sv, layer, forest, kind, lst, tindex, r)
                    else:
                        res.failure_count += 1
            if di == 7 and si % 211 == 0:
                res.sample({'layer': layer, 'doc': kind + ':' + T.to_markup(forest), 'selector': text,
                            'selected': [_sel.brief(x) for x in sv.select(text, soup)]})
    return res


def replay(case):
    from .. import common
    sv = common.bind()
    if case.get('layer') == 'N':
        from . import c12
        return c12.replay(case)
    forest = _sel.tup(case['forest'])
    lst = _sel.tup(case['selector'])
    soup = _sel.build(forest, case['kind'])
    els = T.elements(soup)
    ti = case.get('target', -1)
    target = soup if ti < 0 else els[ti]
    r = _sel.run_case(sv, target, lst)
    if r['status'] in ('ok', 'unspecified'):
        return None
    sig = {'kind': r['status'], 'direction': r.get('direction', r.get('exc', '')),
           'atoms': '+'.join(sorted(_sel.atoms_of(lst))), 'tree': '+'.join(sorted(tree_features(forest))),
           'doc': 'xml' if case['kind'] in ('api-xml', 'xml') else 'html'}
    return sig, r.get('detail', '')


def check(tier, seed):
    res, info = shard.run(__name__, shards(tier, seed), order_seed=seed)
    cov = {
        'rule': ('every (document, selector, call target) triple of layers S/F/A/PS/PA is executed on soupsieve.select and on the '
                 'reference matcher; a doc-level case is non-trivial when the reference selects a non-empty proper subset '
                 'of the elements; triples are distinct by construction (enumerators yield each once)'),
        'exhaustive': not info['cap_hit'],
        'bounds': {'tier': tier, 'max_elements': 3 if tier == 'quick' else '4 (5 without interleavings)',
                   'max_compounds': 3, 'function_nesting_depth': 2},
    }
    return {'result': res, 'coverage': cov, 'info': info,
            'assumptions': ['the reference matcher vf/ref/css.py (validated against the repository\'s own selector tests by vf.selftest)',
                            'ASCII lowercase names only (case rules are C11), no namespaces (C12), no iframes',
                            "':root' is not asserted for detached targets, several top-level elements or top-level character data"]}
