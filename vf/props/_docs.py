"""Rich documents shared by the relational checks (C05) and the crash check (C08)."""
from __future__ import annotations

SVG = 'http://www.w3.org/2000/svg'
XLINK = 'http://www.w3.org/1999/xlink'
XHTML = 'http://www.w3.org/1999/xhtml'
MATHML = 'http://www.w3.org/1998/Math/MathML'

FORMS = '''<form id="f1" class="c"><fieldset id="fs1" disabled><legend><input id="i0" type="text"></legend><input id="i1" type="text" placeholder="p"><legend><input id="i1b"></legend></fieldset>
<input id="i2" type="checkbox" checked><input id="i3" type="checkbox" indeterminate><input id="i4" type="radio" name="n"><input id="i5" type="radio" name="n">
<input id="i6" type="radio" name="m" checked><input id="i7" type="radio" name="m"><input id="i8" type="number" min="1" max="5" value="7" required>
<input id="i9" type="number" min="1" max="5" value="3" readonly><input id="i10" type="date" min="2020-01-01" value="2021-02-29"><input id="i11" type="hidden" disabled>
<input id="i12" type="submit"><button id="b1" type="submit">go</button><button id="b2" disabled>no</button><select id="s1" required><optgroup id="og" disabled><option id="o1">a</option></optgroup><option id="o2" selected>b</option></select>
<textarea id="t1" placeholder="x"></textarea><textarea id="t2" readonly>text</textarea><progress id="p1"></progress><progress id="p2" value="1"></progress>
<input id="i13" type="time" min="22:00" max="02:00" value="23:00"><input id="i14" type="week" min="2020-W01" value="2019-W52"><input id="i15" type="text" placeholder="" value=""><input id="i16" placeholder="q" value="">
</form><form id="f2"><input id="j1" type="radio" name="n" checked><input id="j2" type="submit"><div contenteditable="true" id="ce">e</div><div contenteditable="" id="ce2"></div></form>'''

LINKS = '''<div id="d1" lang="en" class="c x"><a id="a1" href="u">link</a><a id="a2">nolink</a><map><area id="ar1" href="v"></map><p id="p1" lang="de-DE" dir="rtl">eins <span id="sp1">zwei</span></p>
<p id="p2" lang="" dir="auto">אב<b id="b1">x</b></p><p id="p3" dir="auto">abc</p><bdi id="bd1">ג</bdi><p id="p4" dir="ltr" class="x"><i id="i1" lang="en-US">t</i><!-- c --></p><p id="p5"></p><p id="p6"> </p><input id="in1" type="tel"><input id="in2" type="text" dir="auto" value="אב"><textarea id="ta1" dir="auto">ab</textarea></div>'''

IFRAME = '''<div id="o" lang="en"><form id="of"><input id="ob" type="submit"><iframe id="fr"><html lang="fr"><body><form id="if"><input id="ib" type="submit"><input id="ir" type="radio" name="n"></form><p id="ip" class="c">inner text</p></body></html></iframe><input id="or" type="radio" name="n" checked></form><p id="op" class="c">outer text</p></div>'''

FOREIGN = '''<div id="w" class="c"><svg id="sv" xmlns:xlink="http://www.w3.org/1999/xlink"><circle id="ci" class="c"/><a id="sa" xlink:href="x" href="y"><text id="tx">t</text></a></svg><math id="ma"><mi id="mi">x</mi></math><div-custom id="dc">c</div-custom><x-y id="xy"></x-y><p id="fp" class="c">p</p><h1 id="h1">h</h1><h2 id="h2" class="c">hh</h2></div>'''

STRUCT = '''<div id="r" class="a b"><ul id="u"><li id="l1" class="a">one</li><li id="l2">two<!--c--></li><li id="l3" class="a b">three</li><li id="l4"></li></ul><table id="t"><tr id="tr1"><td id="c1"></td><td id="c2"></td><td id="c3">x</td></tr></table>
<div id="n1"><div id="n2" class="b"><span id="s1" title="T v">a</span><span id="s2" title="t-v">b</span><em id="e1">c</em></div></div><p id="q1">alpha beta</p><p id="q2" class="a">beta</p></div>'''

IFRAME_META = '''<div id="o"><p id="before" class="c">outer first</p><form id="of"><input id="ob" type="submit"><input id="oc" type="checkbox" checked><iframe id="fr"><html><head></head><body><form id="if"><input id="ib" type="submit"></form><p id="inner" class="c">inner text</p><span id="isp"><em id="iem">x</em></span></body></html></iframe></form><p id="after" class="c">outer last</p></div>'''

MARKUPS = {'forms': FORMS, 'links': LINKS, 'iframe': IFRAME, 'foreign': FOREIGN, 'struct': STRUCT, 'iframe-meta': IFRAME_META}
HEAD = '<head><meta http-equiv="content-language" content="en"><title>t</title></head>'


def html_doc(name):
    return '<!DOCTYPE html><html>' + (HEAD if name in ('links', 'struct', 'iframe-meta') else '<head></head>') + '<body>' + MARKUPS[name] + '</body></html>'


def xhtml_doc(name):
    body = MARKUPS[name].replace('<svg ', '<svg xmlns="%s" ' % SVG).replace('<math ', '<math xmlns="%s" ' % MATHML)
    for void in ('input', 'area', 'meta'):
        import re
        body = re.sub(r'<%s\b([^>]*?)/?>' % void, r'<%s\1/>' % void, body)
    body = re.sub(r'\b(checked|disabled|required|readonly|selected|indeterminate)(?=[\s/>])', r'\1=""', body)
    head = HEAD.replace('content="en">', 'content="en"/>')
    return ('<?xml version="1.0" encoding="UTF-8"?><html xmlns="%s">%s<body>%s</body></html>' % (XHTML, head, body))


def xml_doc(name):
    return xhtml_doc(name).replace(' xmlns="%s"' % XHTML, '', 1)


def build(name, kind):
    """kind in html.parser, lxml, html5lib, xhtml, xml"""
    import bs4
    import warnings
    with warnings.catch_warnings():
        warnings.simplefilter('ignore')
        if kind in ('html.parser', 'lxml', 'html5lib'):
            return bs4.BeautifulSoup(html_doc(name), kind)
        if kind == 'xhtml':
            return bs4.BeautifulSoup(xhtml_doc(name), 'xml')
        return bs4.BeautifulSoup(xml_doc(name), 'xml')


KINDS = ('html.parser', 'lxml', 'html5lib', 'xhtml', 'xml')
